"""per-property text for the evidence files (what is decided, what is not)"""
PROPERTY_META = {}


def meta(pid, explanation, not_decided=(), assumptions=()):
    PROPERTY_META[pid] = {"explanation": explanation, "not_decided": list(not_decided), "assumptions": list(assumptions)}


meta("C07",
     "Static deadlock-freedom conditions: (R07.1) the wait-for graph between actor tasks, built from every awaited bounded-mailbox "
     "send reachable from an actor's message loop (joined child tasks included), has no cycle; (R07.2) no lock guard is alive at a "
     "Yield; (R07.3) lock nesting is acyclic and never re-entrant; (R07.4) every unbounded wait of the unary Pull handler is raced "
     "against a constant timer; (R07.5) actor handlers wait only on things the wait-for graph accounts for.",
     ["a numeric bound on the amount of server work per request"],
     ["tokio mpsc channels are FIFO and bounded as created; parking_lot locks are not re-entrant; select! polls all branches"])

meta("C09",
     "Provenance (backward slices over MIR, entering local callees and closures) of every field of every delivery mapping: pull "
     "(PubsubMessage), push (PushPayloadMessage) and ingestion (TopicMessage::new call sites); write-set of TopicMessage fields and "
     "mutable Arc access; uniqueness structure of MessageId (single constructor, operands = topic internal id and a counter "
     "incremented per message, manager id counter only increasing, bit layout injective).",
     ["byte equality of concrete payloads (clone/to_vec/encode are trusted to preserve values)", "counter wrap after 2^32 messages per topic"],
     ["library calls are pure functions of their arguments for provenance purposes"])

meta("C18",
     "Writer/reader agreement of the resource-name grammar: every literal segment that Display writes must be compared by content "
     "(starts_with / strip_prefix / == / find ...) in try_parse, not merely used through its length; the two name parsers must run the "
     "same stages; names derive Eq/Hash over exactly two components and key the resource maps.",
     ["minimum-length guard and emptiness of ids (string values)", "echo round-trip through trim_matches('/') (e.g. projects/p/topics/a/)"],
     ["str library functions behave as documented"])

meta("C05",
     "Interval/partition analysis of the seconds->action guard (exactly <0 rejected, 0 nack, 1..599 identity, >=600 capped, casts lossless), "
     "all-or-nothing batch parsing dominating the apply call, deadline = Instant::now() + N, and the tracker's replace-both / requeue rules "
     "shared with C02/C01/C06.",
     ["when the new deadline fires in wall-clock terms (C04's undecided part)"],
     ["Duration::from_secs / Instant + Duration are monotone"])

meta("C16",
     "Cancel-atomicity: for every client-cancellable root (25 RPC handler coroutines + the 2 StreamingPull stream bodies, per control "
     "message) an interprocedural walk over all paths, inlining awaited local coroutines, looks for `effect -> Yield at which the root "
     "can be dropped -> effect`.  Effects are synchronous mutations of shared state, completions of mailbox sends of mutating request "
     "variants (mutating-ness computed from the actor handler's effect cone) and task spawns; handing out messages (PullMessages) is "
     "exempt by the property's own text.  Actor loops are detached tasks and ignore failed replies.",
     ["for which poll count k the window is hit (irrelevant: the rule forbids the window)"],
     ["tonic drops the handler future / response stream when the client goes away; a spawned task runs to completion"])

meta("C17",
     "Validate-before-mutate on all paths of every RPC handler and stream body (no state effect precedes a call whose synchronous cone "
     "can build Status::invalid_argument); the raw-field parse cone contains no panicking library call, indexing or division; every "
     "narrowing integer cast of a request field is proven in range by interval analysis or is a listed exception; the StreamingPull "
     "structural checks and the push-endpoint check dominate the first effect.",
     ["that every possible string value is handled (parsers are loop-free compositions of total library functions: R17.2 is the static content)",
      "hangs (C07/C12)"],
     ["library functions listed in libmodel.MAY_PANIC are the ones that can panic"])

meta("C12",
     "Deletion-safety of every consumer wait: the delete flow raises the deletion one-shot and notify_waiters on every successful path; each "
     "consumer loop (a loop that pulls and waits on the message signal) either races its wait against the deletion signal with the deleted "
     "branch leading to an error status (decided by constant propagation into the loop condition), or re-pulls into an error; the pull half "
     "of the merged StreamingPull stream cannot return without an Err item; every Subscription handle method turns a closed mailbox / dropped "
     "reply into an error; the actor task ends on the deletion signal.",
     ["which select branch tokio's RNG picks at run time (irrelevant once every branch is safe)"],
     ["StreamExt::merge completes only when both halves complete; tonic ends a response stream at the first Err item"])

meta("C02",
     "The tracker invariant that take_expired's unwrap_unchecked relies on: on every path of every body of impl OutstandingMessageTracker an "
     "insert/remove/clear on the ack-id map is paired with the same operation on the expiry schedule within the same loop iteration "
     "(dominance / must-pass-through); modify removes the entry keyed by the deadline read before the overwrite and inserts the one computed "
     "after it; the acknowledge handler's transitive effect set is confined to the tracker; unknown ids take the not-found arm with no "
     "mutation; unary, streaming and push acks use one sink.",
     ["behaviour over concrete histories (follows from the invariant plus single ownership, C03)"],
     ["HashMap/BTreeSet insert/remove semantics as documented"])

meta("C01",
     "Message-conservation skeleton on all paths: publish spawns one joined posting task per entry of TopicActor.subscriptions and replies Ok "
     "only after join_next() returned None; no non-blocking mailbox send and every send result propagated; the post handler appends the "
     "posted vector unless the subscription is deleted; every pop is followed by recording the delivery as outstanding; every removal from "
     "the tracker is returned and requeued unless it is the acknowledge path (expiry followed through the actor loop's select); routing: one "
     "builder of the post request called only from the fan-out, attachment only through create with the same Arc<Topic>.",
     ["mailbox FIFO order and races of Publish with create/delete (schedules)", "that a pull sent after Publish returned is processed after the post"],
     ["tokio mpsc is FIFO; JoinSet::join_next returns None only when all tasks finished"])

meta("C03",
     "Exclusive lease structure: the actor state is built once, moved into a single detached task, is not Clone and not stored or wrapped in "
     "shared pointers, so `&mut self` serialises all handlers; pop and record are not separated by a Yield; each PulledMessage takes its id "
     "from a read of next_ack_id which is overwritten with AckId::next (a strict increment) in the same iteration; the backlog is only fed "
     "by posts and by values returned from tracker removals; all three consumer kinds use the one lease request.",
     ["when a lease ends in wall-clock terms (C04)", "ack id wrap after 2^64 hand-outs"],
     ["Rust's &mut exclusivity; single-threaded execution of one task"])

meta("C06",
     "Wake-up structure: every append to the backlog (post, nack, expiry) and every pop that may leave messages behind is followed on all "
     "paths by a notify on the message signal, at most guarded by `backlog.is_empty()`; the notifier kind (notify_one stores a permit) and "
     "the registration order of each consumer loop are compatible; after a wake-up each consumer loop pulls again.",
     ["hand-on of wake-ups between several consumers under a given schedule, fairness"],
     ["tokio Notify: notify_one stores one permit; a Notified future created before notify_waiters receives it"])

meta("C08",
     "Ordering structure: one writer of the per-topic counter, advanced per message before the id is built; the per-message step pushes "
     "exactly one id (the one stored in the message) and returns exactly one Arc; it is driven by into_iter().map() over the request vector "
     "with no reordering adapter; the backlog is only appended at the back and popped at the front; all posts are joined before the handler "
     "returns and the actor handles one request at a time; the RPC response carries the actor's id vector through order-preserving calls.",
     ["first-delivery order as observed by concurrent consumers (schedule property)"],
     ["VecDeque / Vec / iterator adapter semantics as documented; mpsc FIFO"])

meta("C04",
     "'Never earlier' and timer structure: the schedule is popped only on the branch where now >= deadline (relation analysis of the guarding "
     "comparison), `now` is Instant::now() unshifted; the hand-out deadline is Instant::now() + info.ack_deadline and the rounding only adds; "
     "interval analysis of the >=10 s clamp; the timer sleeps until the first key of the schedule, is raced against the tracker's Notify, every "
     "schedule mutator notifies, and the actor loop polls the expiry coroutine; plus the tracker pairing invariant (old ack id inert), fresh "
     "ack ids, and requeue+notify on expiry.",
     ["the upper bound (no later than a sub-second slack after the deadline)", "the exact rounding grid arithmetic"],
     ["tokio time::sleep_until fires at or after its deadline; BTreeSet::first is the minimum"])

meta("C15",
     "Batch bound: in the pop loop `len(result) >= capacity` is tested after every push and ends the loop, and the capacity is derived from "
     "the limit parameter only through clamp(_, 0, _) / min / widening (bound domain G6); the limit handed to the actor comes from the request "
     "field through non-increasing conversions (the i32->u16 truncation is listed); an empty PullResponse is only constructed under "
     "return_immediately or after the constant timer; each streamed item is built from the pull of the same iteration.",
     ["numeric wrap beyond the bound argument"],
     ["Ord::clamp / min semantics"])

meta("C19",
     "Check-then-park structure of wait_for_available_space: in every loop iteration the Notified future is created before the availability "
     "check which precedes the await (dominance); every return lies under the positive arm of a check; inc/dec update both counters and then "
     "call notify_waiters on every path; the availability check answers true only through messages < max_messages and bytes < max_bytes, each "
     "counter paired with its own limit.",
     [],
     ["tokio Notify: a Notified future receives notify_waiters wake-ups from the moment it is created"])

meta("C13",
     "Pagination structure: interval analysis of the page-size normalisation (0 -> 20, 1..1000 identity, >1000 -> 1000) and of the accessor's "
     "cap; TryFrom-based rejection of negative sizes and INVALID_ARGUMENT for undecodable tokens; the three listing pipelines agree on "
     "filter(project) -> sort(Ord) -> skip(offset) -> take(size) -> next page, with skip/take fed from Paging.offset/size unchanged; Ord of "
     "Topic/Subscription compares exactly internal_id which comes from an increasing counter; next offset = offset + len only on the "
     "non-empty arm; token codec uses the same engine and byte order on both sides; no panicking call in the pipelines.",
     ["'every resource exactly once' for concrete N and page sizes (arithmetic over runtime lengths)"],
     ["Iterator::skip/take semantics; slice::sort_unstable by Ord"])

meta("C10",
     "Atomic-map structure: existence test and insert in one body on the same map, called under a single live write guard; the error->status "
     "table extracted from every map_err closure (AlreadyExists -> ALREADY_EXISTS, DoesNotExist -> NOT_FOUND, same-project -> "
     "INVALID_ARGUMENT); project check and topic lookup dominate the insert; every actor reply is dominated by the completed handler call and "
     "delete handlers remove the manager entry on every successful path; read-back provenance of the Subscription resource; the >=10 s clamp.",
     ["linearizability of concurrent histories (follows from the locks only together with scheduling arguments)"],
     ["parking_lot RwLock semantics"])

meta("C11",
     "Deletion ordering and ownership: wherever the topic-side removal of a subscription is awaited, it precedes (on every path on which the "
     "topic is alive) the manager-map removal / the actor's delete request / the deletion signal; the delete handler clears backlog and "
     "tracker; topic delete clears only its own set and sends nothing to subscriptions; CreateTopic touches neither the subscription manager "
     "nor any actor and a new topic actor starts with an empty set; only the topic manager's map holds Arc<Topic>, subscriptions hold "
     "Weak<Topic>; create pairs insert with attach; attachment only through create with the same topic.",
     ["set equality of ListTopicSubscriptions and the live subscriptions at a quiescent moment of a given history"],
     ["Arc/Weak semantics"])

meta("C14",
     "Push structure: the u16 status switch fed from Response::status treats exactly {102,200,201,202,204} as success; from every outcome arm "
     "(each success status, any other status, transport error) constant propagation reaches exactly ack or exactly nack with the pushed "
     "delivery's ack id, never both; HTTP requests only in the dispatch, rounds built from registry entries plus a manager lookup, registry "
     "written only with the subscription's own push_config and cleared by the delete flow, URL = registered endpoint, POST; rounds race the "
     "deletion signal and skip missing subscriptions; payload provenance (base64 data, id, attributes, subscription name); dispatch tasks "
     "are joined.",
     ["'no answer within the ack deadline counts as failure' and 'posted again on later rounds' (timing; C04's undecided part)"],
     ["reqwest / serde_json behave as documented"])
