"""per-property text for the evidence files (what is decided, what is not)"""
PROPERTY_META = {}


def meta(pid, explanation, not_decided=(), assumptions=()):
    PROPERTY_META[pid] = {"explanation": explanation, "not_decided": list(not_decided), "assumptions": list(assumptions)}


meta("C07",
     "Static deadlock-freedom conditions: (R07.1) the wait-for graph between actor tasks, built from every awaited bounded-mailbox "
     "send reachable from an actor's message loop (joined child tasks included), has no cycle; (R07.2) no lock guard is alive at a "
     "Yield; (R07.3) lock nesting is acyclic and never re-entrant; (R07.4) every unbounded wait of the unary Pull handler is raced "
     "against a constant timer; (R07.5) actor handlers wait only on things the wait-for graph accounts for.",
     ["a numeric bound on the amount of server work per request"],
     ["tokio mpsc channels are FIFO and bounded as created; parking_lot locks are not re-entrant; select! polls all branches"])
