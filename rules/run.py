#!/usr/bin/env python3
"""Evaluate the rule catalogue of one property on a fact base; write evidence; print verdict lines.
exit 0 = held on everything analysed (known findings are printed), 1 = new violation, 2 = checker broken."""
import argparse
import signal
import json
import os
import sys
import time

sys.path.insert(0, os.path.dirname(os.path.abspath(__file__)))
from mir import Facts
from model import Program
import engine
from engine import HOLDS, VIOLATION, UNDECIDED, VERIF
import props  # noqa: F401  (registers the rules)
from meta import PROPERTY_META


def main():
    ap = argparse.ArgumentParser()
    ap.add_argument("pid")
    ap.add_argument("--facts", required=True)
    ap.add_argument("--tier", default=os.environ.get("VERIF_TIER", "quick"))
    ap.add_argument("--replay", default=None)
    ap.add_argument("--no-evidence", action="store_true")
    ap.add_argument("--json", action="store_true", help="print instances as JSON (self-test)")
    ap.add_argument("--extra", default=None, help="json file with extra evidence facts (thorough tier)")
    args = ap.parse_args()
    t0 = time.time()
    seed = int(os.environ.get("VERIF_SEED", "0") or 0)
    pid = args.pid
    # a rule that does not terminate is a broken check, not a silent one: fail closed after the budget (seconds)
    budget = int(os.environ.get("VERIF_RULE_BUDGET", "900") or 900)
    if hasattr(signal, "SIGALRM") and budget > 0:
        def _too_long(signum, frame):
            import traceback
            where = "".join(traceback.format_stack(frame, limit=6))
            print("ERROR check-broken: property=%s the rules did not finish within %d s\n%s" % (pid, budget, where))
            sys.stdout.flush()
            os._exit(2)
        signal.signal(signal.SIGALRM, _too_long)
        signal.alarm(budget)
    if pid not in engine.REGISTRY:
        print("ERROR check-broken: no rules registered for %s" % pid)
        return 2
    facts = Facts(args.facts)
    prog = Program(facts)
    from anchors import Anchors
    prog.anchors = Anchors(facts)
    only = None
    if args.replay:
        rj = json.load(open(args.replay))
        only = rj["full_key"]
    insts, broken, stats = engine.run_property(pid, prog, args.tier, only)
    if args.json:
        print(json.dumps({"instances": [i.to_json() for i in insts], "broken": broken, "stats": stats}))
        return 0
    known, fixed = engine.load_known()
    viol = [i for i in insts if i.verdict == VIOLATION]
    new_viol = [i for i in viol if (pid, i.full_key()) not in known]
    known_hit = [i for i in viol if (pid, i.full_key()) in known]
    for b in broken:
        print("ERROR check-broken: property=%s %s" % (pid, b))
    os.makedirs(os.path.join(VERIF, "out"), exist_ok=True)
    for i in known_hit:
        print("KNOWN-FINDING: property=%s %s at %s -- %s" % (pid, i.full_key(), i.site, known[(pid, i.full_key())].get("what", i.detail)))
    replay_paths = []
    for n, i in enumerate(new_viol):
        rp = os.path.join(VERIF, "out", "%s-%d.json" % (pid, n))
        with open(rp, "w") as fh:
            json.dump({"property": pid, "full_key": i.full_key(), "rule": i.rule, "site": i.site, "detail": i.detail,
                       "path": i.path, "tree_hash": facts.tree_hash, "facts": args.facts}, fh, indent=1)
        replay_paths.append(rp)
        print("VIOLATION property=%s replay=%s" % (pid, rp))
        print("  rule %s  instance %s" % (i.rule, i.key))
        print("  at %s: %s" % (i.site, i.detail))
        for step in i.path:
            print("     %s" % step)
    und = [i for i in insts if i.verdict == UNDECIDED]
    holds = [i for i in insts if i.verdict == HOLDS]
    print("%s: %d rule(s), %d instance(s): %d hold, %d violation(s) (%d known), %d undecided; tree %s"
          % (pid, len(stats), len(insts), len(holds), len(viol), len(known_hit), len(und), facts.tree_hash))
    for s in stats:
        print("   %-7s %-70s inst=%d (floor %d) holds=%d viol=%d undecided=%d"
              % (s["rule"], s["title"][:70], s["instances"], s["floor"], s["holds"], s["violations"], s["undecided"]))
    for i in und:
        print("   UNDECIDED %s at %s: %s" % (i.full_key(), i.site, i.detail))
    if not args.no_evidence and not args.replay:
        write_evidence(pid, args, seed, facts, prog, insts, stats, broken, known_hit, new_viol, time.time() - t0)
    if new_viol:
        return 1
    if broken:
        return 2
    return 0


def write_evidence(pid, args, seed, facts, prog, insts, stats, broken, known_hit, new_viol, wall):
    meta = PROPERTY_META.get(pid, {})
    samples = []
    by_rule = {}
    for i in insts:
        by_rule.setdefault(i.rule, []).append(i)
    for rid, lst in by_rule.items():
        for i in lst[:4]:
            samples.append(i.to_json())
    distinct_nontrivial = len({i.full_key() for i in insts if i.nontrivial and i.verdict != UNDECIDED})
    bodies = len(facts.bodies)
    call_sites = sum(1 for b in facts.bodies.values() for blk in b.blocks if blk.term.k == "call" and not blk.cleanup)
    yields = sum(1 for b in facts.bodies.values() for blk in b.blocks if blk.term.k == "yield" and not blk.cleanup)
    ev = {
        "property_id": pid,
        "tier": "thorough" if args.tier == "thorough" else "quick",
        "seed": seed,
        "level": "other",
        "coverage": {
            "explanation": meta.get("explanation", "") + "  Analysed: rustc `mir_built` of every hand-written body of the deltio lib and bin "
            "targets of /repo's current working tree (tree hash %s); rules are evaluated on all paths of the control-flow "
            "graphs and over the resolved call graph, nothing is executed." % facts.tree_hash,
            "rule": "one instance per (rule template, site discovered in the fact base); an instance is non-trivial when its site set "
                    "is non-empty and the rule had something to discharge; distinct by stable instance key",
            "evaluations": len(insts),
            "distinct_nontrivial": distinct_nontrivial,
            "obligations": len(insts),
            "discharged": sum(1 for i in insts if i.verdict == HOLDS),
            "undecided": sum(1 for i in insts if i.verdict == UNDECIDED),
            "violations_known": len(known_hit),
            "violations_new": len(new_viol),
            "samples": samples,
            "rules": stats,
            "not_decided": meta.get("not_decided", []),
            "bodies_analysed": bodies,
            "normal_form": {"helper_call_sites_spliced": len(getattr(facts, "norm_log", [])),
                            "helpers_removed_as_units": sorted(h.replace("crate::", "") for h in getattr(facts, "norm_removed", {}))[:40],
                            "reference_units": "rules/reference_units.txt", "doc": "DESIGN.md section 14"},
            "call_sites": call_sites,
            "yields": yields,
            "tree_hash": facts.tree_hash,
            "crates": [list(c) for c in facts.crates],
            "checker_cmd": "./check %s%s" % (pid, " --tier thorough" if args.tier == "thorough" else ""),
            "trusted_base": ["rustc nightly mir_built + Instance::try_resolve", "verif/driver (fact extraction)",
                             "verif/rules/libmodel.py (library semantics from documentation)", "verif/rules/anchors.py",
                             "verif/rules/norm.py (splicing of helper bodies preserves the paths of the program)"],
            "exhaustive": True,
            "broken": broken,
        },
        "assumptions": meta.get("assumptions", []),
        "wall_s": round(wall, 3),
        "violations": len(new_viol) + len(known_hit),
    }
    if args.extra and os.path.exists(args.extra):
        try:
            ev["coverage"]["thorough_extra"] = json.load(open(args.extra))
        except Exception as e:
            ev["coverage"]["thorough_extra"] = {"error": str(e)}
    os.makedirs(os.path.join(VERIF, "evidence"), exist_ok=True)
    with open(os.path.join(VERIF, "evidence", "%s.json" % pid), "w") as fh:
        json.dump(ev, fh, indent=1)


if __name__ == "__main__":
    try:
        rc = main()
    except SystemExit:
        raise
    except BaseException as e:  # never let an internal error look like a verdict (exit 1)
        import traceback
        print("ERROR check-broken: internal error %s: %s" % (type(e).__name__, e))
        traceback.print_exc()
        rc = 2
    sys.exit(rc)
