#!/usr/bin/env bash
# Engine A wrapper: extract MIR facts of /repo's *current working tree* into
# /verif/.cache/facts/<treehash>.json (merged lib+bin).  Prints the fact file path.
# Usage: extract.sh [REPO_DIR]   (REPO_DIR defaults to /repo; the self-test passes scratch copies)
set -euo pipefail
VERIF="$(cd "$(dirname "${BASH_SOURCE[0]}")/.." && pwd)"
REPO="${1:-/repo}"
CACHE="${VERIF_CACHE:-$VERIF/.cache}"
export CARGO_NET_OFFLINE=true
DRV="$VERIF/driver/target/release/verif-driver"
SYSROOT="$(rustc +nightly --print sysroot)"

mkdir -p "$CACHE/facts" "$CACHE/target"
if [ ! -x "$DRV" ] || [ "$VERIF/driver/src/main.rs" -nt "$DRV" ]; then
  (cd "$VERIF/driver" && cargo build --release --offline >&2) || { echo "ERROR check-broken: driver build failed" >&2; exit 2; }
fi

# hash of everything the build reads
PROFILE="${VERIF_PROFILE:-dev}"
PROFILE_FLAG=""; [ "$PROFILE" = "release" ] && PROFILE_FLAG="--release"
HASH=$( (cd "$REPO" && { find src proto build.rs Cargo.toml Cargo.lock -type f 2>/dev/null | LC_ALL=C sort | xargs sha256sum; sha256sum "$DRV"; echo "$PROFILE"; }) | sha256sum | cut -c1-24)
OUT="$CACHE/facts/$HASH.json"
# (a cache hit refreshes the file's age: the pruning below never removes a fact base that was handed out recently)
if [ -s "$OUT" ]; then touch -c "$OUT" 2>/dev/null || true; echo "$OUT"; exit 0; fi

# one extraction at a time (19 checks may start concurrently)
exec 9>"$CACHE/extract.lock"
flock 9
if [ -s "$OUT" ]; then touch -c "$OUT" 2>/dev/null || true; echo "$OUT"; exit 0; fi

TMPF="$(mktemp -d "$CACHE/facts/tmp.XXXXXX")"
trap 'rm -rf "$TMPF"' EXIT
TARGET="$CACHE/target"
# cargo's freshness cache would skip the wrapper: drop the workspace member's fingerprints
rm -rf "$TARGET"/debug/.fingerprint/deltio-* "$TARGET"/release/.fingerprint/deltio-* 2>/dev/null || true
LOG="$TMPF/cargo.log"
if ! (cd "$REPO" && \
      LD_LIBRARY_PATH="$SYSROOT/lib${LD_LIBRARY_PATH:+:$LD_LIBRARY_PATH}" \
      RUSTFLAGS="-Zmir-opt-level=0 -Awarnings" \
      RUSTC_WORKSPACE_WRAPPER="$DRV" \
      VERIF_FACTS_DIR="$TMPF" VERIF_CRATES="deltio" \
      CARGO_TARGET_DIR="$TARGET" \
      cargo +nightly check --offline --lib --bins $PROFILE_FLAG >"$LOG" 2>&1); then
  echo "ERROR check-broken: cargo +nightly check failed on $REPO" >&2
  tail -40 "$LOG" >&2
  exit 2
fi
python3 "$VERIF/bin/merge_facts.py" "$TMPF" "$OUT.tmp" "$HASH" "$REPO" || { echo "ERROR check-broken: fact merge failed" >&2; exit 2; }
mv "$OUT.tmp" "$OUT"
# prune old fact files: keep the 40 newest, and never touch anything younger than 20 minutes (a check may still be reading it)
ls -1t "$CACHE"/facts/*.json 2>/dev/null | tail -n +41 | while read -r f; do
  if [ -n "$(find "$f" -mmin +20 2>/dev/null)" ]; then rm -f "$f"; fi
done
echo "$OUT"
