#!/usr/bin/env bash
# regenerate rules/reference_units.txt from /repo's current tree (run after a deliberate structural change of /repo)
cd "$(dirname "$0")/.." && F=$(bin/extract.sh /repo) && VERIF_NO_NORM=1 python3 - "$F" <<'PY'
import sys; sys.path.insert(0,'rules')
from mir import Facts
f=Facts(sys.argv[1])
ids=sorted(b.id for b in f.lib_bodies() if b.kind in ('Fn','AssocFn') and not b.file.startswith('/'))
head=[l for l in open('rules/reference_units.txt') if l.startswith('#')]
open('rules/reference_units.txt','w').write("".join(head)+"\n".join(ids)+"\n")
print(len(ids), "units")
PY
