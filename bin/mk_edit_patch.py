#!/usr/bin/env python3
"""mk_edit_patch.py <sweep key prefix | file:line:op-substr> -> writes /tmp/edit-<key>.diff from sweep/results.jsonl"""
import json, sys, subprocess, os, tempfile, shutil
want = sys.argv[1]
for l in open('/verif/sweep/results.jsonl'):
    r = json.loads(l)
    tag = "%s:%d:%s" % (r['file'], r['line'], r['op'])
    if r['key'].startswith(want) or want in tag:
        d = tempfile.mkdtemp()
        a = os.path.join(d, 'a', r['file']); b = os.path.join(d, 'b', r['file'])
        os.makedirs(os.path.dirname(a)); os.makedirs(os.path.dirname(b))
        src = open('/repo/' + r['file']).read().split('\n')
        open(a, 'w').write('\n'.join(src))
        i = r['line'] - 1
        assert src[i].strip() == r['before'], (src[i], r['before'])
        ind = src[i][:len(src[i]) - len(src[i].lstrip())]
        src[i] = ind + r['after']
        open(b, 'w').write('\n'.join(src))
        out = subprocess.run(['diff', '-u', 'a/' + r['file'], 'b/' + r['file']], cwd=d, capture_output=True, text=True).stdout
        p = '/tmp/edit-%s.diff' % r['key']
        open(p, 'w').write(out)
        shutil.rmtree(d)
        print(p, tag, r['before'][:50], '->', r['after'][:50])
