#!/usr/bin/env bash
# try_compose.sh <first.diff> <second.diff> [property ids...]
# Applies two stored patches one after the other to a scratch copy of /repo (outside /repo and /verif) and runs the checks
# against the copy.  Prints "COMPOSE-SKIP <why>" when the second does not apply on the first or the result does not build.
# A tool, not a check: exit 0 always; output lines "<id> rc=<rc> [rule keys...]".
set -uo pipefail
VERIF="$(cd "$(dirname "${BASH_SOURCE[0]}")/.." && pwd)"
A="$(readlink -f "$1")"; B="$(readlink -f "$2")"; shift 2
PROPS=("$@")
if [ ${#PROPS[@]} -eq 0 ]; then
  PROPS=($(python3 -c "import json;[print(c['property_id']) for c in json.load(open('$VERIF/MANIFEST.json'))['checks']]"))
fi
SCRATCH="$(mktemp -d /var/tmp/deltio-verif.XXXXXX)"
trap 'rm -rf "$SCRATCH"' EXIT
rsync -a --exclude target --exclude .git /repo/ "$SCRATCH/repo/"
(cd "$SCRATCH/repo" && patch -p1 -s --no-backup-if-mismatch < "$A" >/dev/null 2>&1) || { echo "COMPOSE-SKIP first does not apply"; exit 0; }
(cd "$SCRATCH/repo" && patch -p1 -s --no-backup-if-mismatch -F1 < "$B" >/dev/null 2>&1) || { echo "COMPOSE-SKIP second does not apply on first"; exit 0; }
export VERIF_REPO="$SCRATCH/repo"
FACTS="$("$VERIF/bin/extract.sh" "$VERIF_REPO" 2>"$SCRATCH/extract.err")" || { echo "COMPOSE-SKIP does not build"; exit 0; }
for p in "${PROPS[@]}"; do
  out=$(python3 "$VERIF/rules/run.py" "$p" --facts "$FACTS" --no-evidence 2>&1); rc=$?
  keys=$(echo "$out" | grep -A1 '^VIOLATION' | grep 'rule ' | sed 's/^ *rule \([^ ]*\) *instance \(.*\)$/\1:\2/' | cut -c1-110 | tr '\n' '|')
  broken=$(echo "$out" | grep 'check-broken' | cut -c1-160 | tr '\n' '|')
  echo "$p rc=$rc $keys $broken"
done
