#!/usr/bin/env bash
# try_many.sh <jobs> <patch>...  -- run try_patch.sh on many patches in parallel; prints only non-zero results
J="$1"; shift
printf '%s\n' "$@" | xargs -P "$J" -I{} sh -c 'o=$(/verif/bin/try_patch.sh {} 2>&1); echo "== {}"; echo "$o" | grep -v "^done:"'
