#!/usr/bin/env bash
# confirm_seed.sh <worktree> <n>   -- confirm an independently authored change myself:
#   demo passes without the change, the existing 42 tests pass with it, the demo fails with it.
# Writes <worktree>/out/<n>/confirm.json.  Works only inside the given scratch worktree.
set -uo pipefail
WT="$1"; N="$2"; D="$WT/out/$N"
cd "$WT" || exit 2
export CARGO_NET_OFFLINE=true RUST_BACKTRACE=0
git checkout -q -- src; git clean -fdq -- src
meta="$D/meta.json"
demo_path=$(python3 -c "import json;print(json.load(open('$meta')).get('demo_path','').split()[0])")
[ -n "$demo_path" ] || { echo "no demo_path in meta"; exit 2; }
mkdir -p "$(dirname "$demo_path")"
cp "$D/demo_test.rs" "$demo_path"
# helper files named in meta (demo_files: {"out name": "dest path"}) if any
python3 - "$meta" "$D" <<'PY'
import json,sys,shutil,os
m=json.load(open(sys.argv[1])); d=sys.argv[2]
df=m.get('demo_files')
if isinstance(df,dict):
    for k,v in df.items():
        src=os.path.join(d,k)
        if os.path.exists(src) and not v.endswith(m.get('demo_path','')):
            os.makedirs(os.path.dirname(v) or '.',exist_ok=True); shutil.copy(src,v)
PY
tname=$(basename "$demo_path" .rs)
run_demo() { timeout 900 cargo test --offline --test "$tname" -- --test-threads 1 2>&1 | tail -40; }
out_without=$(run_demo); rc_without=$(echo "$out_without" | grep -c "test result: ok")
git apply "$D/patch.diff" || { echo "patch does not apply"; exit 2; }
suite=$(timeout 1800 cargo test --offline --no-fail-fast 2>&1)
# existing tests = everything except demo targets
passed=$(echo "$suite" | awk '/Running/ {skip = ($0 ~ /demo|findings/)} /^test result:/ { if (!skip) {p+=$4; f+=$6} } END {print p" "f}')
out_with=$(run_demo); rc_with_fail=$(echo "$out_with" | grep -c "test result: FAILED")
git checkout -q -- src; git clean -fdq -- src; rm -f "$demo_path"
python3 - "$D/confirm.json" "$rc_without" "$passed" "$rc_with_fail" <<PY
import json,sys
p=sys.argv
passed,failed=p[3].split()
json.dump({"demo_passes_without": int(p[2])>0, "suite_with_mutant_passed": int(passed), "suite_with_mutant_failed": int(failed), "demo_fails_with": int(p[4])>0}, open(p[1],"w"))
print(open(p[1]).read())
PY
echo "$out_with" | grep -E "panicked|assert|FAILED" | head -5
