#!/usr/bin/env python3
import sys, glob, os
sys.path.insert(0, os.path.join(os.path.dirname(__file__), "..", "rules"))
from mir import Facts
path = sorted(glob.glob(os.path.join(os.path.dirname(__file__), "..", ".cache/facts/*.json")), key=os.path.getmtime)[-1]
if len(sys.argv) > 2 and sys.argv[1] == "--facts":
    path = sys.argv[2]; sys.argv = sys.argv[:1] + sys.argv[3:]
f = Facts(path)
if len(sys.argv) < 2:
    for b in sorted(f.bodies.values(), key=lambda b: (b.file, b.line)):
        print(b.id, "|", b.kind, b.coroutine or "", b.span, len(b.blocks))
else:
    for b in f.find(sys.argv[1]):
        print(b.dump(with_cleanup="--cleanup" in sys.argv))
        print()
