#!/usr/bin/env python3
"""Regenerate DESIGN.md section 13 (rule catalogue) from the rule registry.  Usage: bin/gen_catalogue.py [--write]"""
import os
import re
import sys

VERIF = os.path.abspath(os.path.join(os.path.dirname(__file__), ".."))
sys.path.insert(0, os.path.join(VERIF, "rules"))
import engine  # noqa: E402
import props   # noqa: E402,F401

rows = {}
for pid, rules in engine.REGISTRY.items():
    for r in rules:
        e = rows.setdefault(r.rid, {"serves": [], "floor": r.floor, "title": r.title})
        e["serves"].append(pid)
        if pid == "C" + r.rid[1:3]:
            e["title"], e["floor"] = r.title, r.floor


def k(rid):
    m = re.match(r"R(\d+)\.(\d+)", rid)
    return (int(m.group(1)), int(m.group(2)))


lines = ["## 13. Rule catalogue as built (generated from the registry by `bin/gen_catalogue.py`)", "",
         "`floor` = minimum number of instances on the current tree; fewer instances (without a violation) make the check exit 2.",
         "%d rules, %d (rule, property) registrations." % (len(rows), sum(len(e["serves"]) for e in rows.values())), "",
         "| rule | serves | floor | what it demands |", "|------|--------|-------|-----------------|"]
for rid in sorted(rows, key=k):
    e = rows[rid]
    lines.append("| %s | %s | %d | %s |" % (rid, ", ".join(sorted(e["serves"])), e["floor"], e["title"].replace("|", "\\|")))
text = "\n".join(lines) + "\n\n"
if "--write" in sys.argv:
    p = os.path.join(VERIF, "DESIGN.md")
    s = open(p).read()
    a = s.index("## 13. Rule catalogue")
    b = s.index("## 14. ")
    open(p, "w").write(s[:a] + text + s[b:])
    print("DESIGN.md section 13 rewritten: %d rules" % len(rows))
else:
    print(text)
