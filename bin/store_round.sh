#!/usr/bin/env bash
# store_round.sh <worktree> <n> <seeded-id> <round>  -- confirm an independently authored change (bin/confirm_seed.sh)
# and, when all three confirmations hold, store it as seeded/<seeded-id>/ with the confirmation recorded in meta.json.
set -uo pipefail
VERIF="$(cd "$(dirname "${BASH_SOURCE[0]}")/.." && pwd)"
WT="$1"; N="$2"; ID="$3"; ROUND="$4"; D="$WT/out/$N"
export CARGO_TARGET_DIR="$WT/target"
"$VERIF/bin/confirm_seed.sh" "$WT" "$N" > "$D/confirm.log" 2>&1
python3 - "$D" "$VERIF/seeded/$ID" "$ROUND" <<'PY'
import json,sys,os,shutil
d,dst,rnd=sys.argv[1:4]
c=json.load(open(os.path.join(d,'confirm.json')))
ok=c['demo_passes_without'] and c['suite_with_mutant_passed']==42 and c['suite_with_mutant_failed']==0 and c['demo_fails_with']
print(os.path.basename(dst), 'CONFIRMED' if ok else 'NOT-CONFIRMED', c)
if ok:
    os.makedirs(dst,exist_ok=True)
    m=json.load(open(os.path.join(d,'meta.json')))
    m['round']=int(rnd)
    m['author']='independent sub-agent given only the property text and a scratch worktree (plus one sentence on what kind of trigger the break should need)'
    m['confirmed_by_me']={'how':'bin/confirm_seed.sh in the scratch worktree (base a458d83): demo passes without the change, the 42 tests pass with it, the demo fails with it','result':c}
    m['base_commit']='a458d83'
    json.dump(m,open(os.path.join(dst,'meta.json'),'w'),indent=1)
    shutil.copy(os.path.join(d,'patch.diff'),dst); shutil.copy(os.path.join(d,'demo_test.rs'),dst)
PY
