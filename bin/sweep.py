#!/usr/bin/env python3
"""sweep.py -- mechanical single-edit sweep of /repo/src (a maintenance tool, not a check).

For every syntactic edit site (operator swap, dropped statement, negated condition, changed literal, ...) in
non-test code it builds the edited crate in a scratch copy outside /repo and /verif, runs the repository's own
test suite, and -- for the edits the suite does NOT notice -- runs every property check on the edited copy.
The result (sweep/results.jsonl) lists, per surviving edit, which properties' checks reported a violation.
Edits that survive the tests AND every check are the interesting ones: each is either behaviour-preserving /
outside the 19 properties, or a gap in the rules; they are triaged by hand (sweep/TRIAGE.md).

usage: sweep.py [--jobs N] [--files glob,...] [--ops a,b] [--limit N] [--resume]
"""
import argparse, glob, json, os, re, shutil, subprocess, sys, threading, queue, hashlib

VERIF = os.path.dirname(os.path.dirname(os.path.abspath(__file__)))
REPO = os.environ.get("VERIF_REPO", "/repo")
ROOT = "/var/tmp/deltio-sweep"
ENV = dict(os.environ, CARGO_NET_OFFLINE="true", RUST_BACKTRACE="0")


def code_lines(path):
    """yield (lineno, text) for lines outside #[cfg(test)] modules and comments."""
    lines = open(path).read().split("\n")
    out = []
    in_test = False
    for i, l in enumerate(lines):
        s = l.strip()
        if s.startswith("#[cfg(test)]"):
            in_test = True  # test modules are always last in this repository's files
        if in_test:
            continue
        if s.startswith("//") or s.startswith("#[") or s.startswith("use ") or not s:
            continue
        out.append((i, l))
    return lines, out


def balanced(s):
    d = 0
    for c in s:
        if c in "([{":
            d += 1
        elif c in ")]}":
            d -= 1
            if d < 0:
                return False
    return d == 0


RELOPS = [(" <= ", " < "), (" < ", " <= "), (" >= ", " > "), (" > ", " >= "), (" == ", " != "), (" != ", " == "),
          (" && ", " || "), (" || ", " && "), (" + ", " - "), (" - ", " + ")]


def sites(path):
    lines, code = code_lines(path)
    res = []
    for i, l in code:
        s = l.strip()
        # 1. drop a complete expression statement
        if (s.endswith(";") and balanced(s) and not re.match(r"(let|return|pub|const|static|type|mod|break|continue|fn|impl|struct|enum)\b", s)
                and re.match(r"[A-Za-z_(&*]", s) and "=" not in s.split("(")[0] and not s.startswith("log::")):
            res.append(("drop-stmt", i, None))
        # 1b. drop an assignment statement  x.y = z; / x += 1;
        if s.endswith(";") and balanced(s) and re.match(r"[\w\.\*]+(\[[^\]]*\])? (\+|-)?= ", s):
            res.append(("drop-assign", i, None))
        # 2. operator swaps
        for a, b in RELOPS:
            for m in re.finditer(re.escape(a), l):
                if a in (" < ", " > ") and ("fn " in l or "impl" in l or "->" in l or "::<" in l):
                    continue
                res.append(("op:%s→%s" % (a.strip(), b.strip()), i, (m.start(), m.end(), b)))
        # 3. negate a single-line if / while condition
        m = re.match(r"(\s*(?:\} else )?(?:if|while) )(?!let )(.*)( \{)\s*$", l)
        if m and balanced(m.group(2)):
            res.append(("negate-cond", i, (m.start(2), m.end(2), "!(" + m.group(2) + ")")))
        # 4. literals
        for m in re.finditer(r"(?<![\w\.#\"'])(\d+)(?![\w\.\"'])", l):
            v = int(m.group(1))
            for nv in ({0: [1], 1: [0, 2]}.get(v, [v + 1, v - 1])):
                res.append(("lit:%d→%d" % (v, nv), i, (m.start(1), m.end(1), str(nv))))
        for m in re.finditer(r"\b(true|false)\b", l):
            nv = "false" if m.group(1) == "true" else "true"
            res.append(("bool:%s→%s" % (m.group(1), nv), i, (m.start(1), m.end(1), nv)))
        # 5. swallow an error:  foo(..)?;  ->  foo(..).ok();
        if s.endswith(")?;") and not s.startswith("let ") and not s.startswith("return"):
            k = l.rfind(")?;")
            res.append(("swallow-err", i, (k, k + 3, ").ok();")))
        if s.endswith(".await?;") and not s.startswith("let ") and not s.startswith("return"):
            k = l.rfind(".await?;")
            res.append(("swallow-err", i, (k, k + 8, ".await.ok();")))
        # 6. break <-> continue
        if s == "break;":
            res.append(("break→continue", i, (l.find("break"), l.find("break") + 5, "continue")))
        if s == "continue;":
            res.append(("continue→break", i, (l.find("continue"), l.find("continue") + 8, "break")))
        # 7. min <-> max, first <-> last, front <-> back, is_some <-> is_none, lt/le/gt/ge, saturating
        for a, b in [(".min(", ".max("), (".max(", ".min("), ("pop_front", "pop_back"), ("push_back", "push_front"),
                     (".is_some()", ".is_none()"), (".is_none()", ".is_some()"), (".is_empty()", ".is_empty() == false"),
                     ("Ordering::Less", "Ordering::Greater"), ("Ordering::Greater", "Ordering::Less"),
                     (".first()", ".last()"), (".last()", ".first()"), ("take_while", "skip_while"),
                     (".skip(", ".take("), (".take(", ".skip("), ("insert(", "remove(&"), ("notify_waiters", "notify_one"),
                     ("notify_one", "notify_waiters"), (".cloned()", ".cloned().rev()"), ("retain(|", "retain(|_x| true || |"),
                     ("saturating_sub", "saturating_add"), ("checked_add", "checked_sub"), ("Some(", "None.or(Some("),
                     ("Instant::now()", "(Instant::now() + Duration::from_secs(3600))"),
                     ("STANDARD", "URL_SAFE")]:
            for m in re.finditer(re.escape(a), l):
                rep = b
                if a == "Some(":
                    continue
                res.append(("swap:%s→%s" % (a, b), i, (m.start(), m.end(), rep)))
    return lines, res


def apply_site(lines, site):
    op, i, edit = site
    new = list(lines)
    if edit is None:
        new[i] = re.match(r"\s*", lines[i]).group(0) + "// dropped"
        # keep a trailing expression position valid: nothing to do, statements end in ';'
    else:
        a, b, rep = edit
        new[i] = lines[i][:a] + rep + lines[i][b:]
    return "\n".join(new)


def sh(cmd, cwd=None, timeout=None, env=ENV):
    """run in its own process group; on timeout the whole group is killed (a hung test binary must not survive its cargo)"""
    import signal
    p = subprocess.Popen(cmd, cwd=cwd, shell=isinstance(cmd, str), stdout=subprocess.PIPE, stderr=subprocess.STDOUT, env=env, text=True,
                         errors="replace", start_new_session=True)
    try:
        out, _ = p.communicate(timeout=timeout)
        return p.returncode, out
    except subprocess.TimeoutExpired:
        try:
            os.killpg(p.pid, signal.SIGKILL)
        except OSError:
            pass
        try:
            out, _ = p.communicate(timeout=10)
        except Exception:
            out = ""
        return 124, out or ""


def worker(k, q, results, lock, props, args):
    wdir = os.path.join(ROOT, "w%d" % k)
    repo = os.path.join(wdir, "repo")
    if not os.path.isdir(repo):
        os.makedirs(wdir, exist_ok=True)
        sh(["rsync", "-a", "--exclude", "target", "--exclude", ".git", REPO + "/", repo + "/"])
        rc, out = (0, "") if args.recheck else sh("cargo test --offline --no-run", cwd=repo, timeout=1800)
        if rc != 0:
            print("worker %d: baseline build failed\n%s" % (k, out[-2000:]), file=sys.stderr)
            return
    while True:
        try:
            item = q.get_nowait()
        except queue.Empty:
            return
        rel, lines, site, key = item
        path = os.path.join(repo, rel)
        orig = "\n".join(lines)
        rec = {"key": key, "file": rel, "line": site[1] + 1, "op": site[0], "before": lines[site[1]].strip()}
        try:
            text = apply_site(lines, site)
            rec["after"] = text.split("\n")[site[1]].strip()
            open(path, "w").write(text)
            if args.recheck:
                rc, out = 0, ""
            else:
                rc, out = sh("cargo test --offline --no-run 2>&1 | tail -30", cwd=repo, timeout=900)
            if "error" in out and ("could not compile" in out or "error[" in out or "error:" in out):
                rec["status"] = "nocompile"
            else:
                if args.recheck:
                    rc, out = 0, ""
                else:
                    rc, out = sh("cargo test --offline --no-fail-fast -- --test-threads 4 2>&1", cwd=repo, timeout=240)
                if rc == 124:
                    rec["status"] = "killed-timeout"
                elif rc != 0:
                    rec["status"] = "killed"
                    rec["failed"] = sorted(set(re.findall(r"^test (\S+) \.\.\. FAILED", out, re.M)))[:6]
                else:
                    rec["status"] = "survived"
                    env = dict(ENV, VERIF_REPO=repo)
                    rc, facts = sh([os.path.join(VERIF, "bin/extract.sh"), repo], timeout=900, env=env)
                    facts = facts.strip().split("\n")[-1]
                    if rc != 0 or not os.path.exists(facts):
                        rec["checks"] = "extract-failed"
                    else:
                        fired, broken = {}, {}
                        for p in props:
                            rc, out = sh([sys.executable, os.path.join(VERIF, "rules/run.py"), p, "--facts", facts, "--no-evidence"],
                                         timeout=600, env=env)
                            if rc == 1:
                                keys = re.findall(r"rule (\S+) +instance (.*)", out)
                                fired[p] = ["%s:%s" % (a, b[:90]) for a, b in keys][:4]
                            elif rc != 0:
                                broken[p] = [l[:160] for l in out.split("\n") if "check-broken" in l or "broken" in l][:2]
                        rec["fired"] = fired
                        rec["broken"] = broken
        except Exception as e:  # tool robustness only
            rec["status"] = "tool-error"
            rec["error"] = repr(e)
        finally:
            open(path, "w").write(orig)
        with lock:
            results.write(json.dumps(rec, ensure_ascii=False) + "\n")
            results.flush()
            print("%-14s %-28s %s:%d %s" % (rec.get("status"), rec["op"], rel, rec["line"],
                                            ",".join(rec.get("fired", {}).keys()) or ("-" if rec.get("status") == "survived" else "")), flush=True)


def main():
    ap = argparse.ArgumentParser()
    ap.add_argument("--jobs", type=int, default=5)
    ap.add_argument("--files", default="src/**/*.rs")
    ap.add_argument("--ops", default="")
    ap.add_argument("--limit", type=int, default=0)
    ap.add_argument("--out", default=os.path.join(VERIF, "sweep/results.jsonl"))
    ap.add_argument("--list", action="store_true")
    ap.add_argument("--clean", action="store_true")
    ap.add_argument("--recheck", default="", help="results.jsonl of an earlier run: re-evaluate its survivors with the current rules only (no test run)")
    args = ap.parse_args()
    if args.clean:
        shutil.rmtree(ROOT, ignore_errors=True)
        return
    props = [c["property_id"] for c in json.load(open(os.path.join(VERIF, "MANIFEST.json")))["checks"]]
    files = []
    for g in args.files.split(","):
        files += glob.glob(os.path.join(REPO, g), recursive=True)
    files = sorted(set(f for f in files if not f.endswith("pubsub_proto.rs") and "/tracing/" not in f))
    done = set()
    os.makedirs(os.path.dirname(args.out), exist_ok=True)
    if os.path.exists(args.out):
        for l in open(args.out):
            try:
                done.add(json.loads(l)["key"])
            except Exception:
                pass
    q = queue.Queue()
    n = 0
    only_keys = None
    if args.recheck:
        only_keys = {json.loads(l)["key"] for l in open(args.recheck) if json.loads(l).get("status") == "survived"}
    for f in files:
        rel = os.path.relpath(f, REPO)
        lines, ss = sites(f)
        for s in ss:
            if args.ops and not any(s[0].startswith(o) for o in args.ops.split(",")):
                continue
            key = hashlib.sha1(("%s|%s|%s|%s" % (rel, lines[s[1]].strip(), s[0], s[2][0] if s[2] else "")).encode()).hexdigest()[:12]
            if key in done or (only_keys is not None and key not in only_keys):
                continue
            done.add(key)
            if args.list:
                print(rel, s[1] + 1, s[0], lines[s[1]].strip()[:80])
            q.put((rel, lines, s, key))
            n += 1
            if args.limit and n >= args.limit:
                break
        if args.limit and n >= args.limit:
            break
    print("%d sites queued" % n, flush=True)
    if args.list:
        return
    results = open(args.out, "a")
    lock = threading.Lock()
    ts = [threading.Thread(target=worker, args=(k, q, results, lock, props, args)) for k in range(args.jobs)]
    for t in ts:
        t.start()
    for t in ts:
        t.join()


if __name__ == "__main__":
    main()
