#!/usr/bin/env bash
# thorough tier additions (placeholder until the self-test / witness engines are wired in)
echo '{}' > "$3"
exit 0
