#!/usr/bin/env bash
# run every check (quick) and summarise
cd /verif
for p in $(python3 -c "import json;[print(c['property_id']) for c in json.load(open('MANIFEST.json'))['checks']]"); do
  s=$(date +%s.%N); out=$(./check $p 2>&1); rc=$?; e=$(date +%s.%N)
  nv=$(echo "$out" | grep -c '^VIOLATION'); nk=$(echo "$out" | grep -c '^KNOWN-FINDING'); nb=$(echo "$out" | grep -c 'check-broken')
  printf "%s rc=%d viol=%d known=%d broken=%d %.1fs\n" $p $rc $nv $nk $nb $(echo "$e - $s" | bc)
done
