#!/usr/bin/env python3
"""Checker self-test: apply every variant of mutants/*.patch (and seeded/*/patch.diff) to a scratch copy of /repo,
extract facts, evaluate all rule sets, and compare with the expectation:
  break    -> each listed property must report a VIOLATION (and say which rule);
  refactor -> no property may report a VIOLATION or be broken.
Usage: selftest.py [--only substr] [--jobs N] [--seeded]    exit 0 = all as expected, 2 = checker deficient"""
import argparse, json, os, shutil, subprocess, sys, tempfile, concurrent.futures, glob, time

VERIF = os.path.abspath(os.path.join(os.path.dirname(__file__), ".."))
PROPS = [c["property_id"] for c in json.load(open(os.path.join(VERIF, "MANIFEST.json")))["checks"]]


def run_variant(name, patch, strip, props=None):
    t0 = time.time()
    scratch = tempfile.mkdtemp(prefix="deltio-verif.", dir="/var/tmp")
    try:
        repo = os.path.join(scratch, "repo")
        subprocess.run(["rsync", "-a", "--exclude", "target", "--exclude", ".git", "/repo/", repo + "/"], check=True)
        r = subprocess.run(["patch", "-p%d" % strip, "-s", "-i", patch], cwd=repo, capture_output=True, text=True)
        if r.returncode != 0:
            return name, {"error": "patch failed: " + (r.stdout + r.stderr)[-300:]}
        env = dict(os.environ, VERIF_REPO=repo)
        r = subprocess.run([os.path.join(VERIF, "bin/extract.sh"), repo], capture_output=True, text=True, env=env)
        if r.returncode != 0:
            return name, {"error": "build failed: " + r.stderr[-600:]}
        facts = r.stdout.strip().splitlines()[-1]
        res = {}
        for p in (props or PROPS):
            rr = subprocess.run([sys.executable, os.path.join(VERIF, "rules/run.py"), p, "--facts", facts, "--no-evidence"], capture_output=True, text=True)
            keys = []
            lines = rr.stdout.splitlines()
            for i, l in enumerate(lines):
                if l.startswith("VIOLATION") and i + 1 < len(lines):
                    keys.append(lines[i + 1].strip()[:140])
            broken = [l for l in lines if "check-broken" in l]
            res[p] = {"rc": rr.returncode, "keys": keys, "broken": broken}
        try:
            os.remove(facts)
        except OSError:
            pass
        return name, {"results": res, "wall_s": round(time.time() - t0, 1)}
    finally:
        shutil.rmtree(scratch, ignore_errors=True)


def main():
    ap = argparse.ArgumentParser()
    ap.add_argument("--only", default=None)
    ap.add_argument("--names", default=None, help="comma separated exact variant names")
    ap.add_argument("--jobs", type=int, default=4)
    ap.add_argument("--seeded", action="store_true", help="also run /verif/seeded/*/patch.diff")
    ap.add_argument("--json", default=None)
    ap.add_argument("--props", default=None, help="comma separated property ids to evaluate (default: all 19)")
    args = ap.parse_args()
    props = args.props.split(",") if args.props else None
    expect = json.load(open(os.path.join(VERIF, "mutants/expect.json")))
    variants = []
    for name, e in sorted(expect.items()):
        variants.append((name, os.path.join(VERIF, "mutants", name + ".patch"), 1, e))
    if args.seeded:
        for d in sorted(glob.glob(os.path.join(VERIF, "seeded/*/"))):
            mp = os.path.join(d, "meta.json")
            if os.path.exists(mp) and os.path.exists(os.path.join(d, "patch.diff")):
                meta = json.load(open(mp))
                variants.append(("seeded/" + os.path.basename(d.rstrip("/")), os.path.join(d, "patch.diff"), 1,
                                 {"fires": meta.get("caught_by_expected", [meta["property"]]) if meta.get("caught", True) else [], "kind": "break" if meta.get("caught", True) else "missed",
                                  "may_break": meta.get("checks_left_broken", [])}))
        # behaviour-preserving refactorings written by independent authors: every check must stay silent
        for d in sorted(glob.glob(os.path.join(VERIF, "refactors/*/"))):
            if os.path.exists(os.path.join(d, "patch.diff")):
                rmeta = json.load(open(os.path.join(d, "meta.json"))) if os.path.exists(os.path.join(d, "meta.json")) else {}
                # a restructuring of anchored state may leave a check at exit 2 (anchor moved: maintenance), never at exit 1
                variants.append(("refactors/" + os.path.basename(d.rstrip("/")), os.path.join(d, "patch.diff"), 1,
                                 {"fires": [], "kind": "refactor", "may_break": rmeta.get("checks_left_broken", [])}))
    if args.only:
        variants = [v for v in variants if args.only in v[0]]
    if args.names:
        want = set(args.names.split(","))
        variants = [v for v in variants if v[0] in want]
    bad = 0
    out = {}
    with concurrent.futures.ThreadPoolExecutor(max_workers=args.jobs) as ex:
        futs = {ex.submit(run_variant, n, p, s, props): (n, e) for n, p, s, e in variants}
        for f in concurrent.futures.as_completed(futs):
            n, e = futs[f]
            name, r = f.result()
            out[name] = r
            if "error" in r:
                print("ERR   %-40s %s" % (name, r["error"][:200]))
                bad += 1
                continue
            fired = sorted(p for p, v in r["results"].items() if v["rc"] == 1)
            broken = sorted(p for p, v in r["results"].items() if v["rc"] == 2)
            if e["kind"] == "refactor":
                ok = not fired and set(broken) <= set(e.get("may_break", []))
            elif e["kind"] == "missed":
                ok = True
            else:
                want = set(e["fires"]) & set(props) if props else set(e["fires"])
                ok = want <= set(fired) and set(broken) <= set(e.get("may_break", []))
            extra = sorted(set(fired) - set(e["fires"]))
            print("%s %-40s fired=%s%s%s  (%.0fs)" % ("ok   " if ok else "FAIL ", name, fired, " missing=%s" % sorted(set(e["fires"]) - set(fired)) if not ok and e["kind"] == "break" else "",
                                                      " also=%s" % extra if extra and e["kind"] == "break" else "", r["wall_s"]) + (" BROKEN=%s" % broken if broken else ""))
            if not ok:
                bad += 1
                for p in (fired + broken)[:6]:
                    for k in (r["results"][p]["keys"] + r["results"][p]["broken"])[:2]:
                        print("         %s: %s" % (p, k))
    if args.json:
        json.dump(out, open(args.json, "w"), indent=1)
    print("selftest: %d variant(s), %d not as expected" % (len(variants), bad))
    return 2 if bad else 0


if __name__ == "__main__":
    sys.exit(main())
