#!/usr/bin/env python3
"""compose_sweep.py [--per-seeded K] [--pairs N] [--jobs J] [--seed S]
Composition sweep (DESIGN §17): stored behaviour-preserving changes are composed with stored breaking changes and with each other.
  break o refactor : the seeded change's own check must still report it on top of the refactoring
  refactor o refactor : all checks must stay silent (exit 2 only where one of the two is listed as leaving a check broken)
Only pairs that touch a common file are taken (others commute trivially); pairs whose second patch does not apply or whose
result does not build are skipped and counted.  A tool for maintaining the rules, not one of the registered checks."""
import argparse, concurrent.futures, glob, json, os, random, re, subprocess, sys
VERIF = os.path.dirname(os.path.dirname(os.path.abspath(__file__)))


def files_of(patch):
    return set(re.findall(r"^\+\+\+ b/(\S+)", open(patch).read(), re.M))


def run(a, b, props):
    r = subprocess.run([os.path.join(VERIF, "bin/try_compose.sh"), a, b] + props, capture_output=True, text=True)
    res, skip = {}, None
    for line in r.stdout.splitlines():
        if line.startswith("COMPOSE-SKIP"):
            skip = line
        m = re.match(r"^(C\d\d) rc=(\d+)\s*(.*)$", line)
        if m:
            res[m.group(1)] = (int(m.group(2)), m.group(3).strip())
    return res, skip


def main():
    ap = argparse.ArgumentParser()
    ap.add_argument("--per-seeded", type=int, default=4)
    ap.add_argument("--pairs", type=int, default=120)
    ap.add_argument("--jobs", type=int, default=12)
    ap.add_argument("--seed", type=int, default=1)
    ap.add_argument("--json")
    args = ap.parse_args()
    rnd = random.Random(args.seed)
    all_props = [c["property_id"] for c in json.load(open(os.path.join(VERIF, "MANIFEST.json")))["checks"]]
    refs = {}
    for d in sorted(glob.glob(os.path.join(VERIF, "refactors/*/"))):
        p = os.path.join(d, "patch.diff")
        if os.path.exists(p):
            m = json.load(open(os.path.join(d, "meta.json"))) if os.path.exists(os.path.join(d, "meta.json")) else {}
            refs[os.path.basename(d.rstrip("/"))] = (p, files_of(p), set(m.get("checks_left_broken", [])))
    jobs = []
    for d in sorted(glob.glob(os.path.join(VERIF, "seeded/*/"))):
        p = os.path.join(d, "patch.diff")
        mp = os.path.join(d, "meta.json")
        if not (os.path.exists(p) and os.path.exists(mp)):
            continue
        meta = json.load(open(mp))
        if not meta.get("caught", True):
            continue
        want = meta.get("caught_by_expected", [meta["property"]])
        fs = files_of(p)
        cands = [n for n, (rp, rf, rb) in refs.items() if rf & fs and not (rb & set(want))]
        rnd.shuffle(cands)
        for n in cands[:args.per_seeded]:
            jobs.append(("break", "seeded/" + os.path.basename(d.rstrip("/")), n, refs[n][0], p, want, set()))
    names = sorted(refs)
    pairs = set()
    tries = 0
    while len(pairs) < args.pairs and tries < 100000:
        tries += 1
        a, b = rnd.sample(names, 2)
        if refs[a][1] & refs[b][1] and (a, b) not in pairs and (b, a) not in pairs:
            pairs.add((a, b))
    for a, b in sorted(pairs):
        jobs.append(("silent", a, b, refs[a][0], refs[b][0], all_props, refs[a][2] | refs[b][2]))
    out, bad, skipped, done = [], 0, 0, 0
    with concurrent.futures.ThreadPoolExecutor(max_workers=args.jobs) as ex:
        futs = {ex.submit(run, j[3], j[4], list(j[5])): j for j in jobs}
        for f in concurrent.futures.as_completed(futs):
            kind, x, y, _a, _b, props, may_break = futs[f]
            res, skip = f.result()
            if skip:
                skipped += 1
                continue
            done += 1
            if kind == "break":
                ok = all(res.get(p, (0, ""))[0] == 1 for p in props)
                label = "%s on top of refactors/%s" % (x, y)
            else:
                ok = all(rc == 0 or (rc == 2 and p in may_break) for p, (rc, _k) in res.items())
                label = "refactors/%s then refactors/%s" % (x, y)
            out.append({"kind": kind, "first": y if kind == "break" else x, "second": x if kind == "break" else y, "ok": ok,
                        "results": {p: v for p, v in res.items() if v[0] != 0}})
            if not ok:
                bad += 1
                print("FAIL %-6s %s" % (kind, label))
                for p, (rc, k) in sorted(res.items()):
                    if (kind == "break" and p in props and rc != 1) or (kind == "silent" and rc != 0):
                        print("        %s rc=%d %s" % (p, rc, k[:220]))
                sys.stdout.flush()
    if args.json:
        json.dump(out, open(args.json, "w"), indent=1)
    print("compose: %d composition(s) evaluated (%d break-on-refactor, %d refactor-pairs), %d skipped (do not apply / build), %d not as expected"
          % (done, sum(1 for o in out if o["kind"] == "break"), sum(1 for o in out if o["kind"] == "silent"), skipped, bad))
    return 2 if bad else 0


if __name__ == "__main__":
    sys.exit(main())
