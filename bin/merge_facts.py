#!/usr/bin/env python3
"""Merge the per-rustc-process fact files (lib + bin) into one document."""
import json, sys, glob, os
src, out, tree_hash, repo = sys.argv[1:5]
files = sorted(glob.glob(os.path.join(src, "facts.*.json")))
if not files:
    print("no fact files produced (driver skipped by cargo?)", file=sys.stderr)
    sys.exit(1)
crates = []
for f in files:
    with open(f) as fh:
        crates.append(json.load(fh))
kinds = sorted("lib" if "Executable" not in " ".join(c["crate_types"]) else "bin" for c in crates)
if "lib" not in kinds:
    print("lib crate facts missing: %s" % kinds, file=sys.stderr)
    sys.exit(1)
doc = {"tree_hash": tree_hash, "repo": repo, "crates": crates}
with open(out, "w") as fh:
    json.dump(doc, fh)
