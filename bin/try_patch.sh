#!/usr/bin/env bash
# try_patch.sh <patch.diff> [property ids...]
# Applies the patch to a scratch copy of /repo (outside /repo and /verif), runs the checks against the copy and
# prints which properties report a VIOLATION.  The copy and nothing else is removed afterwards.
# exit 0 always (it is a tool, not a check); output lines: "<id> rc=<rc> [rule keys...]"
set -uo pipefail
VERIF="$(cd "$(dirname "${BASH_SOURCE[0]}")/.." && pwd)"
PATCH="$(readlink -f "$1")"; shift
PROPS=("$@")
if [ ${#PROPS[@]} -eq 0 ]; then
  PROPS=($(python3 -c "import json;[print(c['property_id']) for c in json.load(open('$VERIF/MANIFEST.json'))['checks']]"))
fi
SCRATCH="$(mktemp -d /var/tmp/deltio-verif.XXXXXX)"
trap 'rm -rf "$SCRATCH"' EXIT
rsync -a --exclude target --exclude .git /repo/ "$SCRATCH/repo/"
if ! (cd "$SCRATCH/repo" && patch -p1 -s < "$PATCH"); then
  echo "PATCH-FAILED $PATCH"; exit 0
fi
export VERIF_REPO="$SCRATCH/repo"
FACTS="$("$VERIF/bin/extract.sh" "$VERIF_REPO" 2>"$SCRATCH/extract.err")" || { echo "BUILD-FAILED"; tail -15 "$SCRATCH/extract.err"; exit 0; }
[ -n "${SHOW_FACTS:-}" ] && echo "FACTS $FACTS"
for p in "${PROPS[@]}"; do
  out=$(python3 "$VERIF/rules/run.py" "$p" --facts "$FACTS" --no-evidence 2>&1); rc=$?
  keys=$(echo "$out" | grep -A1 '^VIOLATION' | grep 'rule ' | sed 's/^ *rule \([^ ]*\) *instance \(.*\)$/\1:\2/' | cut -c1-110 | tr '\n' '|')
  broken=$(echo "$out" | grep 'check-broken' | cut -c1-160 | tr '\n' '|')
  if [ $rc -ne 0 ]; then echo "$p rc=$rc $keys $broken"; fi
done
echo "done: $(basename "$PATCH")"
