#!/usr/bin/env python3
"""list the calls of the bodies matching a regex (compact)"""
import sys, glob, os
sys.path.insert(0, os.path.join(os.path.dirname(__file__), "..", "rules"))
from mir import Facts
path = sorted(glob.glob(os.path.join(os.path.dirname(__file__), "..", ".cache/facts/*.json")), key=os.path.getmtime)[-1]
f = Facts(path)
for b in f.find(sys.argv[1]):
    print("//", b.id, b.kind, b.coroutine or "", b.span)
    for blk in b.blocks:
        if blk.cleanup: continue
        t = blk.term
        if t.k == "call":
            exp = (t.exp or [""])[-1] if t.exp else ""
            print("  bb%d L%s %r %s" % (blk.idx, t.span.split(":")[1], t.callee or t.fn_op, ("[" + exp + "]") if exp else ""), [b.operand_ty(a) for a in t.args][:1] if t.callee and t.callee.path.endswith("::poll") else "")
        elif t.k == "yield":
            print("  bb%d L%s YIELD" % (blk.idx, t.span.split(":")[1]))
        for s in blk.stmts:
            if s.k == "assign" and s.rv.k == "agg" and s.rv.j["ak"] in ("closure", "coroutine"):
                print("  bb%d L%s %s %s caps=%s" % (blk.idx, s.span.split(":")[1], s.rv.j["ak"], s.rv.j["def"].split("::")[-1], s.rv.j["fields"]))
