#!/usr/bin/env python3
"""(re)generate /verif/MANIFEST.json from the per-property table below"""
import json, os, sys
sys.path.insert(0, os.path.join(os.path.dirname(__file__), "..", "rules"))
from meta import PROPERTY_META
import engine, props  # noqa

VERIF = os.path.abspath(os.path.join(os.path.dirname(__file__), ".."))
TECH = {
    "C01": "MIR dataflow: must-pass-through / dominance on the publish, post, pop, expire, nack paths + who-may-call on request constructors",
    "C02": "MIR dataflow: paired-update (dominance / must-pass-through per loop iteration) on the tracker's two structures; effect confinement",
    "C03": "ownership / typestate facts from ADTs + MIR dataflow on the lease counter and backlog writers",
    "C04": "relation analysis of the expiry guard, provenance slices of deadlines, interval analysis of the 10 s clamp, timer-arming structure",
    "C05": "interval / partition analysis of the seconds guard (abstract interpretation), dominance of parse over apply, provenance",
    "C06": "must-pass-through append=>notify on all paths; notifier-kind x registration-order compatibility; constant propagation after wake-up",
    "C07": "wait-for graph between actor tasks (cycle detection), lock-guard liveness across Yield, lock-order graph",
    "C08": "effect classification of backlog operations (FIFO discipline), exactly-one analysis of the per-message step, adapter-chain order check",
    "C09": "provenance by backward slicing over MIR (over-approximate dependence), write-set analysis, bit-layout injectivity check",
    "C10": "check-and-insert under one live guard, error->status table extraction from match arms, dominance of validation over creation",
    "C11": "ordering by dominance with topic-alive exception, effect-cone exclusion (no cascade), ADT field-type scan for strong references",
    "C12": "consumer-loop discovery + constant propagation of the deleted branch into the loop condition; must-pass-through of Err items",
    "C13": "interval analysis of page-size normalisation, sibling comparison of the three listing pipelines, codec agreement",
    "C14": "status-set equality on the MIR switch, constant propagation from each outcome arm to ack/nack, provenance, who-may-call",
    "C15": "bound-derivation domain (clamp/min/widening) for the batch capacity, control dependence of empty responses",
    "C16": "interprocedural event-order analysis: effect -> cancellable Yield -> effect on all paths of client-cancellable roots",
    "C17": "interprocedural event-order analysis (effect before possible INVALID_ARGUMENT), may-panic call scan of the raw parse cone, interval analysis of casts",
    "C18": "writer/reader literal agreement: string constants written by Display vs constants compared by content in try_parse",
    "C19": "dominance (register -> check -> await), control dependence of returns, must-pass-through of notify_waiters, relation analysis of limit checks",
}
TEXT = {
    "C01": "Decides the conservation and routing skeleton that loss-freedom needs on every path of the code; it does not decide histories. A change that drops, diverts or fails to join a post, skips recording a popped message, or loses a removed delivery is reported with the offending path.",
    "C02": "Decides the tracker invariant (map and schedule describe the same set) on all paths plus effect confinement of acknowledge; together with single ownership (C03) this is what makes an ack final and local.",
    "C03": "Decides that handlers are serialised by construction (single owner, not Clone, not shared), that pop+record is atomic w.r.t. suspension, that lease ids are fresh, and that the backlog is only fed from posts or tracker removals.",
    "C04": "Decides 'never earlier' (guard direction, unshifted now, forward-only rounding, >=10 s clamp) and that the timer is armed on the earliest deadline and re-armed on change; the upper slack is a numeric timing clause and is not decided.",
    "C05": "Decides the exact partition of the i32 seconds range, all-or-nothing parsing before apply, deadline = now + N, and replace-both in the tracker.",
    "C06": "Decides the necessary wake-up structure (every availability event notifies; no lost-wake-up window by construction); multi-consumer hand-on under schedules is not decided.",
    "C07": "Decides absence of wait-for cycles between actor tasks for all schedules at once, plus lock discipline and the bounded Pull wait.",
    "C08": "Decides the ordering structure (counter, per-message step, FIFO container discipline, joined posts, response order); observed order under concurrent consumers is not decided.",
    "C09": "Decides field-level provenance of every delivery path (absence of a source field in an over-approximate slice is a proof of non-dependence), immutability after publish and id uniqueness structure.",
    "C10": "Decides the structural preconditions of atomic-map behaviour (one guard, status table, validation before creation, effect before reply, read-back provenance); linearizability itself is not decided.",
    "C11": "Decides deletion ordering, no-cascade, no re-attachment, weak references and insert/attach pairing; set equality at quiescence is not decided.",
    "C12": "Decides that every consumer wait is deletion-safe whichever select branch fires and that a stream half cannot end silently under merge.",
    "C13": "Decides size/token partitions, sibling agreement of the listing pipelines, creation-order keys, next-offset rule and codec agreement; 'exactly once over N resources' is arithmetic and not decided.",
    "C14": "Decides the success-status set, exactly-one ack/nack with correct polarity, registry discipline and payload provenance; timing clauses are not decided.",
    "C15": "Decides that the batch bound is derived from the request limit by non-increasing operations and is tested after every push, and that empty responses are only constructed where allowed.",
    "C16": "Decides cancel-atomicity for every suspension point of every client-cancellable root at once (the rule forbids the window, for all k).",
    "C17": "Decides validate-before-mutate on all paths, panic-freedom of the raw parse cone by call classification, and guardedness of narrowing casts.",
    "C18": "Decides the literal-segment clause (what Display writes must be compared when parsing) and name identity; min-length and echo round-trip are string-value clauses and are not decided.",
    "C19": "Decides the check-then-park structure that makes a lost wake-up impossible given tokio's documented Notify guarantee.",
}
props_list = [json.loads(l)["id"] for l in open(os.path.join(VERIF, "properties.jsonl"))]
checks = []
for pid in props_list:
    if pid not in engine.REGISTRY:
        continue
    meta = PROPERTY_META.get(pid, {})
    rules = engine.REGISTRY[pid]
    checks.append({
        "property_id": pid,
        "quick_cmd": "./check %s" % pid,
        "thorough_cmd": "./check %s --tier thorough" % pid,
        "evidence_file": "/verif/evidence/%s.json" % pid,
        "replay_cmd_template": "./check %s --replay {path}" % pid,
        "engine": "rules",
        "level_claimed": {"category": "other",
                          "text": "static rule checking of necessary structural conditions over rustc MIR (all paths, resolved callees). " + TEXT[pid],
                          "design_ref": "DESIGN.md section 5, %s" % pid},
        "level_note": "Rules: %s. Not decided (stated, not faked): %s. Trusted: rustc's mir_built and trait resolution, the fact driver, libmodel.py (library semantics), anchors.py; %s"
                      % (", ".join("%s" % r.rid for r in rules), "; ".join(meta.get("not_decided", [])) or "nothing further", "; ".join(meta.get("assumptions", []))),
        "technique": TECH[pid],
    })
na = [{"property_id": p, "reason": "no rule set yet"} for p in props_list if p not in engine.REGISTRY]
m = {
    "version": 1,
    "setup_cmd": "./bin/setup.sh",
    "hooks": {"guard": "deltio_verif", "enable": "none needed: the analysis reads the ordinary build of /repo (cargo +nightly check through the fact driver); no hook was added to /repo",
              "baseline_off_cmd": "cd /repo && cargo test --workspace --no-fail-fast --offline", "source_commits": [], "add_only": True},
    "engines": [
        {"name": "driver", "path": "driver/", "serves_properties": props_list, "kind_free_text": "rustc_private driver (RUSTC_WORKSPACE_WRAPPER) dumping mir_built of every hand-written body as JSON facts"},
        {"name": "rules", "path": "rules/", "serves_properties": props_list, "kind_free_text": "python3 rule engine: CFG/dominators, origins, effect summaries, slices, intervals, event-order, wait-for graph; three-valued verdicts, floors, known findings"},
        {"name": "selftest", "path": "seeded/ + bin/selftest.sh", "serves_properties": props_list, "kind_free_text": "thorough tier: applies the kept seeded changes to scratch copies and requires the named rule to fire (checker self-test, never a verdict on /repo)"},
    ],
    "checks": checks,
    "not_applicable": na,
    "notes": "Static analysis only (no test, fuzzer, model checker or solver decides anything). exit 0 = all rule instances hold or are listed known findings; exit 1 = VIOLATION line; exit 2 = checker broken (anchor/floor/infrastructure), never a verdict. See DESIGN.md.",
}
json.dump(m, open(os.path.join(VERIF, "MANIFEST.json"), "w"), indent=1)
print("checks:", len(checks), "not_applicable:", len(na))
