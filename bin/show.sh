#!/usr/bin/env bash
# show all instances of a property
F=$(/verif/bin/extract.sh "${VERIF_REPO:-/repo}"); python3 /verif/rules/run.py $1 --facts $F --json | python3 -c "
import json,sys
d=json.load(sys.stdin)
for i in d['instances']: print(i['verdict'][:4], i['rule'], i['key'], '|', i['site'], '|', i['detail'][:160])
print(d['broken'])"
