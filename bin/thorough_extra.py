#!/usr/bin/env python3
"""thorough tier, informational part: run the self-test variants that name this property and summarise them together with
the release-profile evaluation.  Never influences the exit code of the check."""
import json, os, subprocess, sys, glob
VERIF = os.path.abspath(os.path.join(os.path.dirname(__file__), ".."))
pid, repo, rrc, rlog, out = sys.argv[1:6]
extra = {"release_profile": {"exit": int(rrc), "summary": [l for l in open(rlog).read().splitlines() if l.startswith(pid + ":") or l.startswith("   R")][:12]}}
sel = {}
if os.path.realpath(repo) == "/repo" and os.environ.get("VERIF_SELFTEST", "1") != "0":
    expect = json.load(open(os.path.join(VERIF, "mutants/expect.json")))
    names = [n for n, e in expect.items() if pid in e["fires"]] + [n for n, e in expect.items() if e["kind"] == "refactor"]
    seeded = []
    for d in sorted(glob.glob(os.path.join(VERIF, "seeded/*/meta.json"))):
        m = json.load(open(d))
        if m.get("property") == pid:
            seeded.append("seeded/" + os.path.basename(os.path.dirname(d)))
    # the behaviour-preserving changes written for this property by independent authors: must stay silent
    seeded += ["refactors/" + os.path.basename(os.path.dirname(d)) for d in sorted(glob.glob(os.path.join(VERIF, "refactors/%s-*/patch.diff" % pid)))]
    import tempfile
    tmpj = tempfile.mktemp(suffix=".json", dir=os.path.join(VERIF, "out"))
    r = subprocess.run([sys.executable, os.path.join(VERIF, "bin/selftest.py"), "--names", ",".join(names + seeded), "--jobs", "12", "--seeded", "--json", tmpj, "--props", pid],
                       capture_output=True, text=True)
    results = {}
    for l in r.stdout.splitlines():
        if l.startswith(("ok", "FAIL", "ERR")):
            parts = l.split()
            results[parts[1]] = l[:200]
    try:
        os.remove(tmpj)
    except OSError:
        pass
    sel = {"variants": len(results), "as_expected": sum(1 for v in results.values() if v.startswith("ok")), "results": results}
extra["selftest"] = sel
json.dump(extra, open(out, "w"), indent=1)
