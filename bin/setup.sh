#!/usr/bin/env bash
# Build the fact driver and warm the dependency cache (offline).  Run once after a fresh restore.
set -euo pipefail
VERIF="$(cd "$(dirname "${BASH_SOURCE[0]}")/.." && pwd)"
export CARGO_NET_OFFLINE=true
(cd "$VERIF/driver" && cargo build --release --offline)
"$VERIF/bin/extract.sh" /repo >/dev/null
echo "setup ok"
