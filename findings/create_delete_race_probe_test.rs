use bytes::Bytes;
use deltio::paging::Paging;
use deltio::subscriptions::subscription_manager::SubscriptionManager;
use deltio::subscriptions::*;
use deltio::topics::topic_manager::TopicManager;
use deltio::topics::*;
use std::sync::Arc;

/// A subscription that was deleted is not attached to its topic, however the deletion
/// interleaved with the creation of that subscription.
#[tokio::test(flavor = "multi_thread", worker_threads = 4)]
async fn deleted_subscription_is_not_left_attached() {
    let topic_manager = Arc::new(TopicManager::new());
    let subscription_manager = Arc::new(SubscriptionManager::new(Default::default()));
    let topic = topic_manager
        .create_topic(TopicName::new("test", "topic"))
        .unwrap();

    let mut ghosts = 0usize;
    for round in 0..5_000 {
        let name = SubscriptionName::new("test", &format!("sub-{round}"));
        let creator = {
            let subscription_manager = Arc::clone(&subscription_manager);
            let topic = Arc::clone(&topic);
            let name = name.clone();
            tokio::spawn(async move {
                subscription_manager
                    .create_subscription(SubscriptionInfo::new_with_defaults(name), topic)
                    .await
            })
        };
        // Delete it as soon as it can be looked up.
        let deleter = {
            let subscription_manager = Arc::clone(&subscription_manager);
            let name = name.clone();
            tokio::spawn(async move {
                loop {
                    if let Ok(subscription) = subscription_manager.get_subscription(&name) {
                        break subscription.delete().await;
                    }
                    std::hint::spin_loop();
                }
            })
        };
        let _ = creator.await.unwrap();
        deleter.await.unwrap().unwrap();

        // The delete has returned: the subscription must be gone from the manager and the topic.
        assert!(subscription_manager.get_subscription(&name).is_err());
        let page = topic
            .list_subscriptions(Paging::new(1000, None))
            .await
            .unwrap();
        if page.subscriptions.iter().any(|s| s.name == name) {
            ghosts += 1;
            break;
        }
    }
    if ghosts > 0 {
        // .. and the topic is now poisoned: publishing fails because it posts to a dead subscription.
        let result = topic
            .publish_messages(vec![TopicMessage::new(Bytes::from("x"), None)])
            .await;
        panic!("a deleted subscription stayed attached to its topic; a publish now gives {:?}", result.map(|_| ()));
    }
}
