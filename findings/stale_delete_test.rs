//! Triage record (not a registered check): a stale `Subscription` handle whose subscription was already deleted
//! must not detach a newer subscription created under the same name (two racing DeleteSubscription requests that
//! both looked the old subscription up, with a CreateSubscription of the same name in between).
//! Fails on 7040d3f (the deadlock repair moved the topic-side detach into the handle, where it is not guarded by
//! the actor's once-only `deleted` flag); passes once the topic removes by (name, internal id).
use deltio::paging::Paging;
use deltio::subscriptions::subscription_manager::SubscriptionManager;
use deltio::subscriptions::*;
use deltio::topics::topic_manager::TopicManager;
use deltio::topics::*;
use std::sync::Arc;

#[tokio::test]
async fn stale_handle_does_not_detach_its_successor() {
    let topic_manager = TopicManager::new();
    let subscription_manager = SubscriptionManager::new(Default::default());
    let topic = topic_manager
        .create_topic(TopicName::new("p", "t"))
        .unwrap();
    let name = SubscriptionName::new("p", "s");

    let first = subscription_manager
        .create_subscription(SubscriptionInfo::new_with_defaults(name.clone()), Arc::clone(&topic))
        .await
        .unwrap();
    let stale = Arc::clone(&first);
    first.delete().await.unwrap();

    let second = subscription_manager
        .create_subscription(SubscriptionInfo::new_with_defaults(name.clone()), Arc::clone(&topic))
        .await
        .unwrap();

    // the racing second DeleteSubscription, still holding the handle of the first incarnation
    let _ = stale.delete().await;

    let page = topic.list_subscriptions(Paging::start(10)).await.unwrap();
    let listed: Vec<u32> = page.subscriptions.iter().map(|s| s.internal_id).collect();
    assert_eq!(
        listed,
        vec![second.internal_id],
        "the live subscription must still be attached to its topic"
    );

    // and it still receives
    topic
        .publish_messages(vec![TopicMessage::new(bytes::Bytes::from("x"), None)])
        .await
        .unwrap();
    assert_eq!(second.pull_messages(10).await.unwrap().len(), 1);
}
