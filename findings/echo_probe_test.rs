use deltio::subscriptions::SubscriptionName;
use deltio::topics::TopicName;

#[test]
fn echo_of_accepted_topic_name_is_accepted() {
    for input in ["projects/p/topics/a/", "projects/pp/topics//", "projects/p/topics///a", "projects/p/topics/ab"] {
        if let Some(name) = TopicName::try_parse(input) {
            let echo = name.to_string();
            let again = TopicName::try_parse(&echo);
            assert_eq!(again.as_ref(), Some(&name), "input {input:?} accepted, echo {echo:?} not accepted as the same name");
        }
    }
}

#[test]
fn echo_of_accepted_subscription_name_is_accepted() {
    for input in ["projects/p/subscriptions/a/", "projects/pp/subscriptions//", "projects/p/subscriptions///a"] {
        if let Some(name) = SubscriptionName::try_parse(input) {
            let echo = name.to_string();
            let again = SubscriptionName::try_parse(&echo);
            assert_eq!(again.as_ref(), Some(&name), "input {input:?} accepted, echo {echo:?} not accepted as the same name");
        }
    }
}
