//! Regression tests for suspected defects (F1..F6).
//!
//! Every test in this file is expected to FAIL on the code as it is today if the
//! corresponding defect is real, and to PASS once the defect is repaired.
//! None of the tests may hang: every wait is bounded by `tokio::time::timeout`.

use crate::push_server::{decode_data, TestPushServer};
use bytes::Bytes;
use deltio::paging::Paging;
use deltio::pubsub_proto::{
    DeleteSubscriptionRequest, PublishRequest, PubsubMessage, PullRequest, PushConfig,
    StreamingPullRequest, Subscription as SubscriptionResource,
};
use deltio::push::PushSubscriptionsRegistry;
use deltio::subscriptions::subscription_manager::SubscriptionManager;
use deltio::subscriptions::{SubscriptionInfo, SubscriptionName};
use deltio::topics::topic_manager::TopicManager;
use deltio::topics::{TopicMessage, TopicName};
use futures::StreamExt;
use std::collections::HashMap;
use std::sync::Arc;
use std::time::Duration;
use test_helpers::*;
use tokio::time::timeout;
use tonic::Code;
use uuid::Uuid;

pub mod push_server;
pub mod test_helpers;

/// The capacity of the topic actor's and the subscription actor's mailbox.
const MAILBOX_CAPACITY: usize = 16;

// ---------------------------------------------------------------------------------------------
// F1: DeleteSubscription vs. Publish deadlock.
//
// `SubscriptionActor::delete` awaits `topic.remove_subscription(..)` *inside* the subscription
// actor loop; `TopicActor::publish_messages` awaits capacity in every subscription mailbox
// *inside* the topic actor loop. With the subscription mailbox full behind the `Delete` request,
// each actor waits for the other one forever.
//
// The test runs on the (FIFO) current-thread runtime with a paused clock, so the interleaving
// is deterministic:
//   1. `delete`       -> `Delete` enqueued in the subscription mailbox (1/16)
//   2. 15 `get_stats` -> subscription mailbox is full (16/16)
//   3.  8 `get_stats` -> parked on the mailbox semaphore (FIFO waiters)
//   4. `publish`      -> `PublishMessages` enqueued in the topic mailbox
//   5. subscription actor takes `Delete`; the freed slot is handed to a parked `get_stats`, so
//      the mailbox is full again; the actor sends `RemoveSubscription` and awaits the reply.
//   6. topic actor takes `PublishMessages` and awaits mailbox capacity on the subscription, which
//      never comes because the subscription actor is not receiving; `RemoveSubscription` is never
//      looked at because the topic actor is not receiving either.
// ---------------------------------------------------------------------------------------------
#[tokio::test(start_paused = true)]
async fn f1_delete_subscription_racing_publish_must_not_deadlock() {
    let topic_manager = TopicManager::new();
    let subscription_manager = SubscriptionManager::new(PushSubscriptionsRegistry::new());
    let topic = topic_manager
        .create_topic(TopicName::new("f1", "topic"))
        .unwrap();
    let subscription = subscription_manager
        .create_subscription(
            SubscriptionInfo::new_with_defaults(SubscriptionName::new("f1", "subscription")),
            Arc::clone(&topic),
        )
        .await
        .unwrap();

    // 1. Start the delete.
    let delete_task = tokio::spawn({
        let subscription = Arc::clone(&subscription);
        async move { subscription.delete().await.is_ok() }
    });

    // 2+3. Flood the subscription with more requests than its mailbox can hold.
    let flood_tasks = (0..(MAILBOX_CAPACITY - 1 + 8))
        .map(|_| {
            let subscription = Arc::clone(&subscription);
            tokio::spawn(async move {
                let _ = subscription.get_stats().await;
            })
        })
        .collect::<Vec<_>>();

    // 4. Publish concurrently...
    let publish_task = tokio::spawn({
        let topic = Arc::clone(&topic);
        async move {
            let _ = topic
                .publish_messages(vec![TopicMessage::new(Bytes::from("hello"), None)])
                .await;
        }
    });

    // ...and queue a few more ordinary topic requests behind it.
    let list_tasks = (0..4)
        .map(|_| {
            let topic = Arc::clone(&topic);
            tokio::spawn(async move {
                let _ = topic.list_subscriptions(Paging::start(10)).await;
            })
        })
        .collect::<Vec<_>>();

    // Both the delete and the publish must complete. We do not care about the publish result
    // (the subscription may or may not have received the message), only that it terminates.
    // The clock is paused, so if every task is parked the timeout elapses instantly.
    let delete_outcome = timeout(Duration::from_secs(30), delete_task).await;
    let publish_outcome = timeout(Duration::from_secs(30), publish_task).await;
    let lists_outcome = timeout(
        Duration::from_secs(30),
        futures::future::join_all(list_tasks),
    )
    .await;

    for task in flood_tasks {
        task.abort();
    }

    assert!(
        delete_outcome.is_ok() && publish_outcome.is_ok() && lists_outcome.is_ok(),
        "deadlock between the subscription actor and the topic actor: \
         delete completed = {}, publish completed = {}, subsequent topic requests completed = {}",
        delete_outcome.is_ok(),
        publish_outcome.is_ok(),
        lists_outcome.is_ok(),
    );
    assert!(
        delete_outcome.unwrap().unwrap(),
        "deleting the subscription should succeed"
    );
}

// ---------------------------------------------------------------------------------------------
// F2: the HTTP push payload drops the message attributes.
// ---------------------------------------------------------------------------------------------
#[tokio::test]
async fn f2_push_payload_contains_message_attributes() {
    let mut server = TestHost::start().await.unwrap();
    let mut push_server = TestPushServer::start().await.unwrap();

    let topic_name = TopicName::new("f2", "topic");
    server.create_topic_with_name(&topic_name).await;

    // Create a subscription configured for push.
    let subscription_name = SubscriptionName::new("f2", "subscription");
    server
        .subscriber
        .create_subscription(SubscriptionResource {
            push_config: Some(PushConfig {
                attributes: Default::default(),
                authentication_method: None,
                push_endpoint: push_server.url(),
            }),
            ..map_to_subscription_resource(&subscription_name, &topic_name)
        })
        .await
        .unwrap();

    // Publish a message with attributes.
    let attributes = [("Attr1", "Value1"), ("Attr2", "Value2")]
        .into_iter()
        .map(|(k, v)| (k.to_string(), v.to_string()))
        .collect::<HashMap<_, _>>();
    server
        .publisher
        .publish(PublishRequest {
            topic: topic_name.to_string(),
            messages: vec![PubsubMessage {
                publish_time: None,
                attributes: attributes.clone(),
                message_id: Default::default(),
                ordering_key: Default::default(),
                data: "Hello".as_bytes().to_vec(),
            }],
        })
        .await
        .unwrap();

    // Make the push loop tick.
    tokio::time::pause();
    tokio::time::advance(Duration::from_secs(1)).await;
    tokio::time::resume();

    let payload = timeout(Duration::from_secs(10), push_server.next())
        .await
        .expect("timed out waiting for the push request")
        .expect("push server closed");
    assert_eq!(decode_data(&payload), "Hello");
    let pushed_attributes = payload.message.attributes.clone();
    payload.succeed();

    assert_eq!(
        pushed_attributes, attributes,
        "the push payload must carry the attributes of the published message"
    );

    push_server.dispose().await;
    server.dispose().await;
}

// ---------------------------------------------------------------------------------------------
// F3a: a blocked unary Pull must be released with an error when the subscription is deleted.
//
// In `pull`, the wait is only on the "messages available" signal. Deletion does fire that signal
// once (`notify_waiters`), after which the handler pulls again. If the subscription actor is
// still alive at that point (it is, until its task observes the deletion signal) it answers
// `Ok(empty)` because `deleted == true`, and the handler parks on a *fresh* signal that nobody
// will ever fire -> the Pull hangs until the 5 minute cap. If the actor is already gone the
// handler gets `Closed` and fails with FAILED_PRECONDITION.
//
// On a current-thread runtime the actor task always wins that race (it is woken first), so the
// Pull is always released; on a multi-threaded runtime (which is what the real server uses) the
// handler frequently wins. This test therefore needs the multi-threaded runtime and is the only
// test in this file that relies on a real race; several concurrent pulls and several rounds
// make it practically certain to hit (observed: ~24% of all blocked pulls get stuck).
// ---------------------------------------------------------------------------------------------
#[allow(deprecated)]
#[tokio::test(flavor = "multi_thread", worker_threads = 4)]
async fn f3a_blocked_pull_is_released_when_subscription_is_deleted() {
    const ROUNDS: usize = 20;
    const CONCURRENT_PULLS: usize = 20;

    let mut server = TestHost::start().await.unwrap();
    let topic_name = TopicName::new("f3a", "topic");
    server.create_topic_with_name(&topic_name).await;

    for round in 0..ROUNDS {
        let subscription_name = SubscriptionName::new("f3a", &Uuid::new_v4().to_string());
        server
            .create_subscription_with_name(&topic_name, &subscription_name)
            .await;

        // Start pulls that block since there are no messages.
        let mut pull_tasks = (0..CONCURRENT_PULLS)
            .map(|_| {
                let mut subscriber = server.subscriber.clone();
                let subscription = subscription_name.to_string();
                tokio::spawn(async move {
                    subscriber
                        .pull(PullRequest {
                            subscription,
                            max_messages: 10,
                            return_immediately: false,
                        })
                        .await
                })
            })
            .collect::<Vec<_>>();

        // Give the pulls some time to reach the server and park; they must still be pending.
        tokio::time::sleep(Duration::from_millis(200)).await;
        assert!(
            pull_tasks.iter().all(|t| !t.is_finished()),
            "the pulls should be blocked since there are no messages"
        );

        // Delete the subscription.
        server
            .subscriber
            .delete_subscription(DeleteSubscriptionRequest {
                subscription: subscription_name.to_string(),
            })
            .await
            .unwrap();

        // Every pull must now fail promptly.
        let results = timeout(
            Duration::from_secs(3),
            futures::future::join_all(pull_tasks.iter_mut()),
        )
        .await;
        let still_blocked = pull_tasks.iter().filter(|t| !t.is_finished()).count();
        pull_tasks.iter().for_each(|t| t.abort());
        assert!(
            results.is_ok(),
            "round {}: {} of {} blocked Pull calls were not released within 3s of DeleteSubscription",
            round,
            still_blocked,
            CONCURRENT_PULLS
        );
        for result in results.unwrap() {
            let status = result
                .unwrap()
                .expect_err("a Pull on a deleted subscription must fail");
            assert!(
                matches!(status.code(), Code::NotFound | Code::FailedPrecondition),
                "unexpected status {:?}",
                status
            );
        }
    }

    server.dispose().await;
}

// ---------------------------------------------------------------------------------------------
// F3b: a StreamingPull with an open request side must always terminate with NOT_FOUND when the
// subscription is deleted. Which `select!` branch fires in the server is random, so the scenario
// is repeated with fresh subscriptions.
// ---------------------------------------------------------------------------------------------
#[tokio::test]
async fn f3b_streaming_pull_ends_with_not_found_when_subscription_is_deleted() {
    const ITERATIONS: usize = 40;

    let mut server = TestHost::start().await.unwrap();
    let topic_name = TopicName::new("f3b", "topic");
    server.create_topic_with_name(&topic_name).await;

    let mut failures = Vec::new();
    for iteration in 0..ITERATIONS {
        let subscription_name = SubscriptionName::new("f3b", &Uuid::new_v4().to_string());
        server
            .create_subscription_with_name(&topic_name, &subscription_name)
            .await;

        // Open the stream; `sender` is the request side and stays open for the whole iteration.
        let (sender, mut inbound) = server.streaming_pull(&subscription_name).await;

        // Publish a message and receive it, which proves that the server side pull loop is
        // running and is about to wait for the next signal.
        server
            .publish_text_messages(&topic_name, vec!["Hello".into()])
            .await;
        let first = timeout(Duration::from_secs(5), inbound.next())
            .await
            .expect("timed out waiting for the first message")
            .expect("stream ended early")
            .expect("stream failed early");
        assert_eq!(first.received_messages.len(), 1);

        // Delete the subscription.
        server
            .subscriber
            .delete_subscription(DeleteSubscriptionRequest {
                subscription: subscription_name.to_string(),
            })
            .await
            .unwrap();

        // The stream must end with NOT_FOUND.
        match timeout(Duration::from_secs(1), inbound.next()).await {
            Ok(Some(Err(status))) if status.code() == Code::NotFound => {}
            Ok(Some(Err(status))) => {
                failures.push(format!("#{iteration}: wrong status {:?}", status.code()))
            }
            Ok(Some(Ok(_))) => failures.push(format!("#{iteration}: got a response")),
            Ok(None) => failures.push(format!("#{iteration}: stream ended without a status")),
            Err(_) => failures.push(format!("#{iteration}: stream still open after 1s")),
        }

        drop(sender);
        drop(inbound);
    }

    assert!(
        failures.is_empty(),
        "{} of {} streaming pulls did not end with NOT_FOUND after DeleteSubscription: {:?}",
        failures.len(),
        ITERATIONS,
        failures
    );

    server.dispose().await;
}

// ---------------------------------------------------------------------------------------------
// F4: `SubscriptionManager::create_subscription` is not cancel safe: the subscription is
// inserted in the manager and only then attached to the topic (which awaits mailbox capacity in
// the caller's task). If the caller goes away in between, the subscription exists but never
// receives anything.
//
// Runs on the current-thread runtime: as long as the test does not yield, the topic actor does
// not run, so the 16 requests that are enqueued by polling the futures once keep the mailbox full.
// ---------------------------------------------------------------------------------------------
#[tokio::test(start_paused = true)]
async fn f4_cancelled_create_subscription_does_not_leave_detached_subscription() {
    let topic_manager = TopicManager::new();
    let subscription_manager = SubscriptionManager::new(PushSubscriptionsRegistry::new());
    let topic = topic_manager
        .create_topic(TopicName::new("f4", "topic"))
        .unwrap();

    // Saturate the topic actor's mailbox.
    let mut fillers = Vec::new();
    for _ in 0..MAILBOX_CAPACITY {
        let mut filler = Box::pin(topic.list_subscriptions(Paging::start(10)));
        assert!(futures::poll!(filler.as_mut()).is_pending());
        fillers.push(filler);
    }

    // Start creating the subscription, then cancel the call (like tonic does when a client
    // disconnects or its deadline elapses).
    let subscription_name = SubscriptionName::new("f4", "subscription");
    {
        let mut create = Box::pin(subscription_manager.create_subscription(
            SubscriptionInfo::new_with_defaults(subscription_name.clone()),
            Arc::clone(&topic),
        ));
        for _ in 0..3 {
            assert!(
                futures::poll!(create.as_mut()).is_pending(),
                "the topic mailbox is full so the call can't have completed"
            );
        }
    }

    // Let everything drain.
    for filler in fillers {
        let _ = timeout(Duration::from_secs(5), filler)
            .await
            .expect("topic request did not complete")
            .unwrap();
    }
    for _ in 0..50 {
        tokio::task::yield_now().await;
    }

    // Either the subscription does not exist (creation rolled back)...
    let Ok(subscription) = subscription_manager.get_subscription(&subscription_name) else {
        return;
    };

    // ...or it exists, and then it must be attached to its topic.
    let page = timeout(
        Duration::from_secs(5),
        topic.list_subscriptions(Paging::start(100)),
    )
    .await
    .expect("listing topic subscriptions timed out")
    .unwrap();
    assert!(
        page.subscriptions
            .iter()
            .any(|s| s.name == subscription_name),
        "the subscription exists in the subscription manager, \
         but it is not attached to its topic"
    );

    // And a publish must reach it.
    timeout(
        Duration::from_secs(5),
        topic.publish_messages(vec![TopicMessage::new(Bytes::from("hello"), None)]),
    )
    .await
    .expect("publish timed out")
    .unwrap();
    let stats = timeout(Duration::from_secs(5), subscription.get_stats())
        .await
        .expect("get_stats timed out")
        .unwrap();
    assert_eq!(
        stats.backlog_messages_count, 1,
        "the published message must reach the subscription"
    );
}

// ---------------------------------------------------------------------------------------------
// F5a: a StreamingPull control message that is rejected with INVALID_ARGUMENT must not have been
// partially applied (acks applied, then deadline modifications fail to parse).
// ---------------------------------------------------------------------------------------------
#[allow(deprecated)]
#[tokio::test]
async fn f5a_rejected_streaming_pull_control_message_is_not_partially_applied() {
    let mut server = TestHost::start().await.unwrap();

    let topic_name = TopicName::new("f5a", "topic");
    server.create_topic_with_name(&topic_name).await;
    let subscription_name = SubscriptionName::new("f5a", "subscription");
    server
        .create_subscription_with_name(&topic_name, &subscription_name)
        .await;

    // Receive a message on a streaming pull.
    let (sender, mut inbound) = server.streaming_pull(&subscription_name).await;
    server
        .publish_text_messages(&topic_name, vec!["Hello".into()])
        .await;
    let response = timeout(Duration::from_secs(5), inbound.next())
        .await
        .expect("timed out waiting for the message")
        .unwrap()
        .unwrap();
    assert_eq!(response.received_messages.len(), 1);
    let ack_id = response.received_messages[0].ack_id.clone();

    // Send a control message with a valid ack and a malformed deadline modification.
    sender
        .send(StreamingPullRequest {
            ack_ids: vec![ack_id],
            modify_deadline_ack_ids: vec!["not-a-number".to_string()],
            modify_deadline_seconds: vec![10],
            ..streaming_ack(vec![])
        })
        .await
        .unwrap();

    // The stream must fail with INVALID_ARGUMENT.
    let status = timeout(Duration::from_secs(5), inbound.next())
        .await
        .expect("timed out waiting for the stream to fail")
        .expect("the stream ended without a status")
        .expect_err("the control message is invalid");
    assert_eq!(status.code(), Code::InvalidArgument);
    drop(sender);
    drop(inbound);

    // Since the request was rejected, the message must not have been acknowledged: once its
    // ack deadline (10s) has passed it must be delivered again.
    tokio::time::pause();
    tokio::time::advance(Duration::from_secs(11)).await;
    tokio::time::resume();

    let pulled = timeout(
        Duration::from_secs(3),
        server.subscriber.pull(PullRequest {
            subscription: subscription_name.to_string(),
            max_messages: 10,
            return_immediately: false,
        }),
    )
    .await;
    let redelivered = match pulled {
        Ok(response) => response.unwrap().into_inner().received_messages.len(),
        // Nothing to pull: the pull blocks.
        Err(_) => 0,
    };
    assert_eq!(
        redelivered, 1,
        "the control message was rejected with INVALID_ARGUMENT, yet its ack was applied \
         (the message was not redelivered after its ack deadline)"
    );

    server.dispose().await;
}

// ---------------------------------------------------------------------------------------------
// F6: resource names with the wrong collection segment are accepted.
// ---------------------------------------------------------------------------------------------
#[test]
fn f6_topic_name_rejects_wrong_collection_segment() {
    assert_eq!(
        TopicName::try_parse("projects/p/subscriptions/x"),
        None,
        "a subscription path is not a topic name"
    );
    assert_eq!(
        TopicName::try_parse("projects/p/topicz/abc"),
        None,
        "the collection segment must be exactly 'topics'"
    );
    // Sanity check.
    assert_eq!(
        TopicName::try_parse("projects/p/topics/abc"),
        Some(TopicName::new("p", "abc"))
    );
}

#[test]
fn f6_subscription_name_rejects_wrong_collection_segment() {
    assert_eq!(
        SubscriptionName::try_parse("projects/p/topics/abcdefghi"),
        None,
        "a topic path is not a subscription name"
    );
    assert_eq!(
        SubscriptionName::try_parse("projects/p/subscriptionz/abc"),
        None,
        "the collection segment must be exactly 'subscriptions'"
    );
    // Sanity check.
    assert_eq!(
        SubscriptionName::try_parse("projects/p/subscriptions/abc"),
        Some(SubscriptionName::new("p", "abc"))
    );
}
