//! Probe (C12 / C07): a request that reaches a subscription's mailbox while the subscription is being deleted must get an
//! answer (an error), never wait for ever.
use deltio::subscriptions::subscription_manager::SubscriptionManager;
use deltio::subscriptions::{Subscription, SubscriptionInfo, SubscriptionName};
use deltio::topics::topic_manager::TopicManager;
use deltio::topics::{Topic, TopicName};
use std::sync::Arc;
use std::time::Duration;
use uuid::Uuid;

async fn new_topic_and_subscription(tm: &TopicManager, sm: &SubscriptionManager) -> (Arc<Topic>, Arc<Subscription>) {
    let project_id = Uuid::new_v4().to_string();
    let topic = tm.create_topic(TopicName::new(&project_id, &Uuid::new_v4().to_string())).unwrap();
    let name = SubscriptionName::new(&project_id, &Uuid::new_v4().to_string());
    let subscription = sm
        .create_subscription(SubscriptionInfo::new_with_defaults(name), Arc::clone(&topic))
        .await
        .unwrap();
    (topic, subscription)
}

#[tokio::test(flavor = "multi_thread", worker_threads = 4)]
async fn requests_racing_the_deletion_never_hang() {
    let tm = TopicManager::new();
    let sm = SubscriptionManager::new(Default::default());
    for round in 0..400 {
        let (_topic, subscription) = new_topic_and_subscription(&tm, &sm).await;
        let hammers = (0..6)
            .map(|n| {
                let subscription = Arc::clone(&subscription);
                tokio::spawn(async move {
                    loop {
                        let closed = match n % 3 {
                            0 => subscription.pull_messages(10).await.is_err(),
                            1 => subscription.get_stats().await.is_err(),
                            _ => subscription.acknowledge_messages(vec![]).await.is_err(),
                        };
                        if closed {
                            return;
                        }
                    }
                })
            })
            .collect::<Vec<_>>();
        tokio::task::yield_now().await;
        let d = Arc::clone(&subscription);
        let delete = tokio::spawn(async move { d.delete().await });
        tokio::time::timeout(Duration::from_secs(10), delete).await.expect("delete hangs").unwrap().unwrap();
        for (i, hammer) in hammers.into_iter().enumerate() {
            tokio::time::timeout(Duration::from_secs(10), hammer)
                .await
                .unwrap_or_else(|_| panic!("round {}: request stream #{} racing the deletion never got an answer", round, i))
                .unwrap();
        }
    }
}
