use deltio::push::PushSubscriptionsRegistry;
use deltio::subscriptions::subscription_manager::SubscriptionManager;
use deltio::subscriptions::*;
use deltio::topics::topic_manager::TopicManager;
use deltio::topics::*;
use std::sync::Arc;
use std::time::Duration;

fn push_info(name: &SubscriptionName) -> SubscriptionInfo {
    SubscriptionInfo::new(
        name.clone(),
        Duration::from_secs(10),
        Some(PushConfig {
            endpoint: "http://localhost:1/push".to_string(),
            oidc_token: None,
            attributes: None,
        }),
    )
}

/// A push subscription that exists is registered for push, whatever happened to an
/// older subscription of the same name.
#[tokio::test(flavor = "multi_thread", worker_threads = 4)]
async fn recreated_push_subscription_stays_registered() {
    let registry = PushSubscriptionsRegistry::new();
    let topic_manager = Arc::new(TopicManager::new());
    let subscription_manager = Arc::new(SubscriptionManager::new(registry.clone()));
    let topic_name = TopicName::new("test", "topic");
    let topic = topic_manager.create_topic(topic_name).unwrap();
    let name = SubscriptionName::new("test", "sub");

    let mut lost = 0usize;
    for _round in 0..20_000 {
        let old = subscription_manager
            .create_subscription(push_info(&name), Arc::clone(&topic))
            .await
            .unwrap();

        // Delete the old one while another task re-creates the name as soon as it is free.
        let deleter = tokio::spawn(async move { old.delete().await });
        let creator = {
            let subscription_manager = Arc::clone(&subscription_manager);
            let topic = Arc::clone(&topic);
            let name = name.clone();
            tokio::spawn(async move {
                loop {
                    match subscription_manager
                        .create_subscription(push_info(&name), Arc::clone(&topic))
                        .await
                    {
                        Ok(new) => break new,
                        Err(_) => std::hint::spin_loop(),
                    }
                }
            })
        };
        deleter.await.unwrap().unwrap();
        let new = creator.await.unwrap();

        // The new subscription exists; is it registered for push?
        if !registry.entries().iter().any(|(n, _)| n == &name) {
            lost += 1;
        }
        new.delete().await.unwrap();
        if lost > 0 {
            break;
        }
    }
    assert_eq!(lost, 0, "a live push subscription lost its push registration to the deletion of its predecessor");
}
